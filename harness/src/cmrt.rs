//! Shared by C07 and C17: the CommonMark round trip on the real code (public API only),
//! document/option generators for the claimed class, shrinking, and classification of a
//! shrunk failing input into a narrow syntactic class (`sig`).
use crate::gen::Corpus;
use crate::opts::Opts;
use crate::rng::Rng;
use comrak::nodes::{AstNode, ListType, NodeValue};
use comrak::{format_commonmark, format_html, parse_document, Arena};
use std::panic::{catch_unwind, AssertUnwindSafe};

#[derive(Clone, Copy, PartialEq, Eq, Debug)]
pub enum Clause {
    /// C07: html(parse(cm(parse x))) == html(parse x) up to the two admitted normalisations
    Html,
    /// C17: cm(parse(cm(parse x))) == cm(parse x)
    Idem,
}

impl Clause {
    pub fn kind(self) -> &'static str {
        match self {
            Clause::Html => "html-roundtrip",
            Clause::Idem => "cm-idempotent",
        }
    }
}

pub struct Rt {
    pub cm1: Vec<u8>,
    pub html0: Vec<u8>,
    pub html1: Vec<u8>,
    pub cm2: Vec<u8>,
}

/// The option vector of the two HTML renderings: everything that only affects HTML output is fixed
/// (raw HTML passed through so that the end-of-list comment is visible and strippable, nested
/// strong collapsed as the repo's gfm-quirks comparison does, whole info string shown).
pub fn html_view(o: &Opts) -> Opts {
    let mut h = o.clone();
    h.set("unsafe_", true);
    h.set("escape", false);
    h.set("sourcepos", false);
    h.set("gfm_quirks", true);
    h.set("full_info_string", true);
    h.set("github_pre_lang", false);
    h.set("tasklist_classes", false);
    h.set("figure_with_caption", false);
    h.set("escaped_char_spans", false);
    h.header_ids = None;
    h
}

fn strip_end_list(h: &[u8]) -> Vec<u8> {
    const PAT: &[u8] = b"<!-- end list -->\n";
    let mut out = Vec::with_capacity(h.len());
    let mut i = 0;
    while i < h.len() {
        if h[i..].starts_with(PAT) {
            i += PAT.len();
        } else {
            out.push(h[i]);
            i += 1;
        }
    }
    out
}

pub fn roundtrip(o: &Opts, md: &str) -> Result<Rt, String> {
    let c = o.to_comrak();
    let hc = html_view(o).to_comrak();
    let stage = std::cell::Cell::new("parse_document");
    catch_unwind(AssertUnwindSafe(|| {
        let arena = Arena::new();
        let root = parse_document(&arena, md, &c);
        stage.set("format_commonmark");
        let mut cm1 = Vec::new();
        format_commonmark(root, &c, &mut cm1).unwrap();
        stage.set("format_html");
        let mut html0 = Vec::new();
        normalize_ws(root, o.width > 0);
        format_html(root, &hc, &mut html0).unwrap();
        let s1 = match String::from_utf8(cm1.clone()) {
            Ok(s) => s,
            Err(_) => return Err("CommonMark output is not UTF-8".to_string()),
        };
        stage.set("parse_document");
        let root1 = parse_document(&arena, &s1, &c);
        stage.set("format_commonmark");
        let mut cm2 = Vec::new();
        format_commonmark(root1, &c, &mut cm2).unwrap();
        stage.set("format_html");
        let mut html1 = Vec::new();
        normalize_ws(root1, o.width > 0);
        format_html(root1, &hc, &mut html1).unwrap();
        Ok(Rt { cm1, html0, html1, cm2 })
    }))
    .unwrap_or_else(|_| {
        // parser panics are C01's subject (total on every input): skipped here, counted by the caller
        if stage.get() == "parse_document" {
            Err("SKIP parser panic".to_string())
        } else {
            Err(format!("PANIC in {}", stage.get()))
        }
    })
}

/// Soft-break placement is not part of the compared document: inside headings (always written as
/// one ATX line) and, when wrapping is on (`width > 0`), everywhere, a soft break is the same as a
/// space and runs of spaces in text are one space (the writer re-flows paragraphs). Code spans,
/// hard breaks and everything else stay as they are.
pub fn normalize_ws<'a>(root: &'a AstNode<'a>, wrapping: bool) {
    let nodes: Vec<&'a AstNode<'a>> = root.descendants().collect();
    for n in &nodes {
        let is_sb = matches!(n.data.borrow().value, NodeValue::SoftBreak);
        if is_sb && (wrapping || n.ancestors().any(|a| matches!(a.data.borrow().value, NodeValue::Heading(_)))) {
            n.data.borrow_mut().value = NodeValue::Text(" ".into());
        }
    }
    for n in &nodes {
        // merge runs of adjacent text children; when wrapping also collapse space runs
        let mut ch = n.first_child();
        while let Some(c) = ch {
            let next = c.next_sibling();
            let is_text = matches!(c.data.borrow().value, NodeValue::Text(_));
            if is_text {
                if let Some(nx) = next {
                    let t2 = match nx.data.borrow().value {
                        NodeValue::Text(ref t) => Some(t.clone()),
                        _ => None,
                    };
                    if let Some(t2) = t2 {
                        if let NodeValue::Text(ref mut t) = c.data.borrow_mut().value {
                            t.push_str(&t2);
                        }
                        nx.detach();
                        continue; // re-examine c with its new next sibling
                    }
                }
                if wrapping {
                    if let NodeValue::Text(ref mut t) = c.data.borrow_mut().value {
                        let mut out = String::with_capacity(t.len());
                        let mut prev_sp = false;
                        for chh in t.chars() {
                            if chh == ' ' {
                                if !prev_sp {
                                    out.push(' ');
                                }
                                prev_sp = true;
                            } else {
                                out.push(chh);
                                prev_sp = false;
                            }
                        }
                        *t = out;
                    }
                }
            }
            ch = next;
        }
    }
}

/// `Some(detail)` when the clause fails on (o, md).
pub fn check(o: &Opts, md: &str, cl: Clause) -> Option<String> {
    match roundtrip(o, md) {
        Err(e) if e.starts_with("SKIP") => None,
        Err(e) => Some(e),
        Ok(rt) => check_rt(&rt, cl),
    }
}

pub fn check_rt(rt: &Rt, cl: Clause) -> Option<String> {
    match cl {
        Clause::Html => {
            let (a, b) = (strip_end_list(&rt.html0), strip_end_list(&rt.html1));
            if a != b {
                Some(format!(
                    "cm={:?} :: html {}",
                    crate::util::show(&rt.cm1),
                    crate::util::diff_window(&a, &b).replace("real", "original").replace("model", "round-tripped")
                ))
            } else {
                None
            }
        }
        Clause::Idem => {
            if rt.cm1 != rt.cm2 {
                Some(format!(
                    "cm1={:?} :: {}",
                    crate::util::show(&rt.cm1),
                    crate::util::diff_window(&rt.cm1, &rt.cm2).replace("real", "first-pass").replace("model", "second-pass")
                ))
            } else {
                None
            }
        }
    }
}

/* ---------------------------------------------------------------- generators */

/// Text over an alphabet that contains every Markdown-significant ASCII character.
const SIG: &[&str] = &[
    "*", "_", "[", "]", "#", "<", ">", "\\", "`", "!", "&", "-", "+", "=", ".", ")", "(", "|", "~", ":", "\"", "'", "$", "^", "1", "2", "10",
    "a", "b", "word", "x", " ", " ", " ", " ", "amp;", "# ", "- ", "+ ", "1. ", "2) ", "> ", "![", "](", "&a", "&#", "www.", "http://", "@",
    "é", "世", "~~", "**", "__", "--", "...", "\t", "%", "{", "}", ";", "/", "?", ",",
];

pub fn sig_text(r: &mut Rng, max: usize) -> String {
    let n = r.range(1, max);
    let mut s = String::new();
    for _ in 0..n {
        s.push_str(r.ps(SIG));
    }
    s
}

fn sig_block(r: &mut Rng, depth: usize) -> String {
    let k = if depth == 0 { r.below(5) } else { r.below(12) };
    let t = |r: &mut Rng| sig_text(r, 8);
    match k {
        0..=2 => {
            let mut s = t(r);
            for _ in 0..r.below(3) {
                s.push('\n');
                s.push_str(&t(r));
            }
            s.push('\n');
            s
        }
        3 => format!("{} {}\n", "#".repeat(r.range(1, 6)), t(r)),
        4 => format!("| {} | {} |\n|---|:-:|\n| {} | {} |\n", t(r).replace('|', "\\|"), t(r).replace('|', "\\|"), t(r).replace('|', "\\|"), t(r).replace('|', "\\|")),
        5 | 6 => {
            let n = r.range(1, 3);
            let mut s = String::new();
            for _ in 0..n {
                s.push_str(&sig_block(r, depth - 1));
                if r.chance(1, 2) {
                    s.push('\n');
                }
            }
            prefix_lines(&s, "> ", "> ")
        }
        7 | 8 | 9 => {
            let ordered = r.chance(1, 2);
            let n = r.range(1, 3);
            let loose = r.chance(1, 3);
            let start = *r.pick(&[1usize, 1, 3, 9, 10, 0]);
            let delim = r.ps(&[".", ")"]);
            let bullet = r.ps(&["-", "*", "+"]);
            let mut s = String::new();
            for i in 0..n {
                let marker = if ordered { format!("{}{} ", start + i, delim) } else { format!("{} ", bullet) };
                let mut body = sig_block(r, depth - 1);
                if r.chance(1, 3) {
                    if r.chance(1, 2) {
                        body.push('\n');
                    }
                    body.push_str(&sig_block(r, depth - 1));
                }
                let pad = " ".repeat(marker.len());
                s.push_str(&prefix_lines(&body, &marker, &pad));
                if loose {
                    s.push('\n');
                }
            }
            s
        }
        10 => format!("```{}\n{}\n```\n", r.ps(&["", "rs", "a b"]), t(r)),
        _ => format!("[^{}]: {}\n", r.ps(&["a", "b"]), t(r)),
    }
}

fn prefix_lines(s: &str, first: &str, rest: &str) -> String {
    let mut out = String::new();
    for (i, l) in s.lines().enumerate() {
        if l.is_empty() && i > 0 {
            out.push_str(rest.trim_end());
        } else {
            out.push_str(if i == 0 { first } else { rest });
        }
        out.push_str(l);
        out.push('\n');
    }
    out
}

pub fn sig_doc(r: &mut Rng) -> String {
    let n = r.range(1, 4);
    let mut s = String::new();
    for _ in 0..n {
        s.push_str(&sig_block(r, 2));
        s.push('\n');
    }
    s
}

pub fn gen_doc_wide(r: &mut Rng, corpus: &Corpus) -> (String, &'static str) {
    let mode = std::env::var("CMRT_GEN").unwrap_or_default();
    if mode == "g" {
        return (crate::gen::grammar_doc(r), "grammar");
    }
    if mode == "s" {
        return (sig_doc(r), "sigtext");
    }
    if mode == "p" {
        return (crate::gen::palette_doc(r), "palette");
    }
    if mode == "c" {
        return (corpus.slice(r), "corpus");
    }
    match r.below(10) {
        0..=3 => (crate::gen::grammar_doc(r), "grammar"),
        4..=6 => (sig_doc(r), "sigtext"),
        7 | 8 => (crate::gen::palette_doc(r), "palette"),
        _ => (corpus.slice(r), "corpus"),
    }
}


/* ---- the claimed class of the two round-trip oracles (S) -------------------------------------
   Documents built from the standard constructs the property names: paragraphs, ATX/setext headings,
   thematic breaks, fenced/indented code, block quotes, bullet/ordered lists (tight/loose, task
   items), HTML blocks, tables, footnotes; inlines: text over an alphabet with every
   Markdown-significant character, emphasis, strong, code spans, links, images, angle autolinks,
   hard breaks, entities, backslash escapes, strikethrough, footnote references. */

/// Significant-alphabet text tokens. Not generated: text that looks like an extended autolink
/// (`www.`, `scheme://`, `@`), which is a separate parser feature.
const STD_TOK: &[&str] = &[
    "*", "_", "[", "]", "#", "<", ">", "\\", "`", "!", "&", "-", "+", "=", ".", ")", "(", "|", "~", ":", "\"", "'", "1", "2", "10",
    "a", "b", "word", "x", " ", " ", " ", " ", "amp;", "# ", "- ", "+ ", "1. ", "2) ", "> ", "![", "](", "&a", "&#",
    "é", "世", "~~", "**", "__", "--", "...", "%", "{", "}", "/", "?", ",",
];

fn std_text(r: &mut Rng, max: usize) -> String {
    let n = r.range(1, max);
    let mut s = String::new();
    for _ in 0..n {
        s.push_str(r.ps(STD_TOK));
    }
    s
}

fn std_words(r: &mut Rng) -> String {
    let n = r.range(1, 3);
    let mut s = String::new();
    for i in 0..n {
        if i > 0 {
            s.push(' ');
        }
        s.push_str(r.ps(&["alpha", "beta", "x", "y", "Z", "foo", "bar", "é", "世"]));
    }
    s
}

fn std_inline(r: &mut Rng, depth: usize) -> String {
    let k = if depth == 0 { r.below(6) } else { r.below(20) };
    match k {
        0..=3 => std_text(r, 5),
        4 | 5 => std_words(r),
        // emphasis holds words (or the two direct nestings); it is set off by spaces from its neighbours
        6 => format!("*{}*", std_words(r)),
        7 => format!("**{}**", std_words(r)),
        8 => r.ps(&["_x y_", "**_a_**", "*__a__*", "***b***", "*a **b** c*"]).to_string(),
        9 => format!("`{}`", r.ps(&["code", "a b", "a*b_c", "x|y", "<b>", "a``b", "&amp;", " a ", "\\", "grep -E \"a|b\" f", "echo `date", "`tick", "a`", "x``", "echo `date`"])),
        10 => format!("``{}``", r.ps(&["a`b", "`", "x"])),
        11 => format!("[{}]({})", r.ps(&["text", "a *b* c", "`code`", "x y"]), r.ps(&["/u", "http://a.b/c?d=e&f=g", "<a b>", "#frag", "/p(q)", ""])),
        12 => format!("[{}](/u \"{}\")", std_words(r), r.ps(&["t", "a b", "x'y", "q&amp;r"])),
        13 => format!("![{}]({})", std_words(r), r.ps(&["/i.png", "/i.png \"t\""])),
        14 => format!("<{}>", r.ps(&["http://a.b/c", "https://x.y/?z=1&w=2", "mailto:a@b.c"])),
        15 => format!("{}{}{}", std_words(r), r.ps(&["  \n", "\\\n"]), std_words(r)),
        16 => r.ps(&["&amp;", "&lt;", "&#35;", "&#x22;", "&copy;", "&nosuch;"]).to_string(),
        17 => r.ps(&["\\*", "\\<", "\\\\", "\\&", "\\[", "\\#", "\\_", "\\`"]).to_string(),
        _ => format!("~~{}~~", std_words(r)),
    }
}

fn std_inline_seq(r: &mut Rng, depth: usize) -> String {
    let n = r.range(1, 3);
    let mut s = String::new();
    for i in 0..n {
        if i > 0 {
            s.push(' ');
        }
        s.push_str(&std_inline(r, depth));
    }
    s
}

/// One paragraph-like run of inline content, 1-3 lines.
fn std_par(r: &mut Rng) -> String {
    let mut s = std_inline_seq(r, 2);
    for _ in 0..r.below(3) {
        s.push('\n');
        s.push_str(&std_inline_seq(r, 2));
    }
    s
}

fn std_block(r: &mut Rng, depth: usize) -> String {
    let k = if depth == 0 { r.below(12) } else { r.below(22) };
    match k {
        0..=3 => format!("{}\n", std_par(r)),
        4 => format!("{} {}\n", "#".repeat(r.range(1, 6)), std_inline_seq(r, 2).replace('\n', " ")),
        5 => format!("{}\n{}\n", std_words(r), r.ps(&["===", "---"])),
        6 => r.ps(&["---\n", "***\n", "___\n"]).to_string(),
        7 => {
            let f = r.ps(&["```", "~~~", "````"]);
            // sometimes a second content line after a line of white space only (auto-indent residue)
            let body = match r.below(6) {
                0 | 1 => format!("{}\n{}\n{}", std_text(r, 4), r.ps(&["  ", "      ", "    ", " ", "\t"]), std_text(r, 4)),
                // the last content line is white space only
                2 => format!("{}\n{}", std_text(r, 4), r.ps(&["  ", "    ", " ", "\t"])),
                _ => std_text(r, 6),
            };
            format!("{}{}\n{}\n{}\n", f, r.ps(&["", "rs", "a b"]), body, f)
        }
        8 => format!("    {}\n", std_text(r, 6).trim_start()),
        9 => r.ps(&["<div>\nx *y*\n</div>\n", "<!-- c -->\n", "<p>\nq\n</p>\n"]).to_string(),
        10 => {
            let cell = |r: &mut Rng| std_inline_seq(r, 1).replace('\n', " ").replace('|', "\\|");
            format!("| {} | {} |\n|---|:-:|\n| {} | {} |\n", cell(r), cell(r), cell(r), cell(r))
        }
        // (sometimes a paragraph that is only digits and an escaped list delimiter: the escape sits at the end of the text)
        11 => {
            if r.chance(1, 4) {
                format!("{}\\{}\n", r.ps(&["1945", "7", "10", "0", "999999999"]), r.ps(&[".", ")"]))
            } else {
                format!("{}\n", std_par(r))
            }
        }
        12..=14 => {
            let n = r.range(1, 3);
            let mut s = String::new();
            for i in 0..n {
                if i > 0 {
                    s.push('\n');
                }
                s.push_str(&std_block(r, depth - 1));
            }
            prefix_lines(&s, "> ", "> ")
        }
        _ => {
            let ordered = r.chance(1, 2);
            let n = r.range(1, 3);
            let loose = r.chance(1, 3);
            let start = *r.pick(&[1usize, 1, 2, 7, 9, 10, 98]);
            let delim = r.ps(&[".", ")"]);
            let bullet = r.ps(&["-", "*", "+"]);
            let mut s = String::new();
            for i in 0..n {
                let marker = if ordered { format!("{}{} ", start + i, delim) } else { format!("{} ", bullet) };
                // restrictions (stated in evidence): a task item starts with a paragraph; no block quote
                // inside a list item (tightness is inherited into the quote in ways not yet explained)
                let mut body = if r.chance(1, 5) { format!("{}{}\n", r.ps(&["[ ] ", "[x] "]), std_par(r)) } else { std_block_noquote(r, depth - 1) };
                if r.chance(1, 3) {
                    body.push('\n');
                    body.push_str(&std_block_noquote(r, depth - 1));
                }
                let pad = " ".repeat(marker.len());
                s.push_str(&prefix_lines(&body, &marker, &pad));
                if loose {
                    s.push('\n');
                }
            }
            s
        }
    }
}

fn std_block_noquote(r: &mut Rng, depth: usize) -> String {
    for _ in 0..20 {
        let b = std_block(r, depth);
        if !b.lines().any(|l| l.trim_start().starts_with('>')) {
            return b;
        }
    }
    format!("{}\n", std_words(r))
}

pub fn std_doc(r: &mut Rng) -> String {
    let n = r.range(1, 4);
    let mut s = String::new();
    for _ in 0..n {
        s.push_str(&std_block(r, 2));
        s.push('\n');
    }
    // at most one footnote per document: one reference and its (single, referenced) definition
    if r.chance(1, 5) {
        s.push_str(&format!("{} note[^a]\n\n[^a]: {}\n", std_words(r), std_words(r)));
    }
    s
}

/// Option vectors of the claimed class of the S oracles: GFM extensions (+ footnotes) in every
/// combination, `list_style`, `prefer_fenced`; `width = 0`, `ol_width = 0`, `smart` off.
pub fn gen_opts(r: &mut Rng) -> Opts {
    let mut o = Opts::default();
    match r.below(4) {
        0 => {}
        1 => {
            for n in GFM_EXT {
                o.set(n, true);
            }
        }
        _ => {
            for n in GFM_EXT {
                o.set(n, r.chance(1, 2));
            }
        }
    }
    o.set("prefer_fenced", r.chance(1, 2));
    o.list_style = r.below(3) as u8;
    if r.chance(1, 3) {
        o.ol_width = r.range(2, 6);
    }
    o
}

pub const GFM_EXT: &[&str] = &["strikethrough", "tagfilter", "table", "autolink", "tasklist", "footnotes"];

/// Option vectors of the claimed class: the GFM extensions (+ footnotes) in every combination, the
/// CommonMark writer's own options (`width` 0 or 1..120, `ol_width`, `list_style`, `prefer_fenced`),
/// the parse option `smart`, and front matter (`---`).
/// Not in the class: the non-GFM extensions, `experimental_minimize_commonmark`, `hardbreaks`,
/// `relaxed_*`, `ignore_*`, `escaped_char_spans` (none of them is in the property's quantifier), and
/// `default_info_string` (the parser adds an info string the document does not spell).
pub fn gen_opts_wide(r: &mut Rng) -> Opts {
    let mut o = Opts::default();
    match r.below(4) {
        0 => {}
        1 => {
            for n in GFM_EXT {
                o.set(n, true);
            }
        }
        _ => {
            for n in GFM_EXT {
                o.set(n, r.chance(1, 2));
            }
        }
    }
    o.set("smart", r.chance(1, 6));
    o.set("prefer_fenced", r.chance(1, 2));
    if r.chance(1, 6) {
        o.front_matter_delimiter = Some("---".to_string());
    }
    if r.chance(1, 2) {
        o.width = match r.below(4) {
            0 => r.range(1, 10),
            1 => r.range(10, 40),
            _ => r.range(1, 120),
        };
    }
    if r.chance(1, 3) {
        o.ol_width = r.range(1, 8);
    }
    o.list_style = r.below(3) as u8;
    o
}

/* ---------------------------------------------------------------- shrinking */

pub struct Shrunk {
    pub o: Opts,
    pub md: String,
    pub evals: usize,
}

/// Shrinks (o, md) while `cl` keeps failing: chunks of lines (halving), single lines, characters,
/// then the option vector (each flag off, widths to 0, strings to none). Bounded by `budget` evaluations.
pub fn shrink(o: &Opts, md: &str, cl: Clause, budget: usize) -> Shrunk {
    let mut evals = 0usize;
    let mut o = o.clone();
    let mut md = md.to_string();
    let fails = |o: &Opts, md: &str, evals: &mut usize| -> bool {
        *evals += 1;
        check(o, md, cl).is_some()
    };
    // options first (cheap, and makes later evaluations more specific)
    shrink_opts(&mut o, &md, &mut evals, &fails);
    let mut rounds = 0;
    loop {
        let before = md.clone();
        rounds += 1;
        // line chunks
        let mut changed = true;
        while changed && evals < budget {
            changed = false;
            let lines: Vec<String> = md.split_inclusive('\n').map(|s| s.to_string()).collect();
            let mut size = (lines.len() / 2).max(1);
            let mut cur = lines;
            loop {
                let mut i = 0;
                while i < cur.len() && evals < budget {
                    if cur.len() <= 1 {
                        break;
                    }
                    let hi = (i + size).min(cur.len());
                    let cand: String = cur[..i].iter().chain(cur[hi..].iter()).cloned().collect();
                    if fails(&o, &cand, &mut evals) {
                        cur.drain(i..hi);
                        changed = true;
                    } else {
                        i += size;
                    }
                }
                if size == 1 {
                    break;
                }
                size = (size / 2).max(1);
            }
            md = cur.concat();
        }
        // characters (runs first, then singles)
        let mut size = (md.chars().count() / 2).max(1);
        loop {
            let mut chars: Vec<char> = md.chars().collect();
            let mut i = 0;
            while i < chars.len() && evals < budget {
                if chars.len() <= 1 {
                    break;
                }
                let hi = (i + size).min(chars.len());
                let cand: String = chars[..i].iter().chain(chars[hi..].iter()).collect();
                if fails(&o, &cand, &mut evals) {
                    chars.drain(i..hi);
                } else {
                    i += size;
                }
            }
            md = chars.into_iter().collect();
            if size == 1 || evals >= budget {
                break;
            }
            size = (size / 2).max(1);
        }

        if md == before || evals >= budget || rounds >= 4 {
            break;
        }
    }
    // simplify characters: letters to 'a' (keeps syntax, normalises classes)
    {
        let chars: Vec<char> = md.chars().collect();
        for i in 0..chars.len() {
            if evals >= budget {
                break;
            }
            let c = chars_at(&md, i);
            if c.is_alphabetic() && c != 'a' {
                let cand: String = md.chars().enumerate().map(|(j, d)| if j == i { 'a' } else { d }).collect();
                if fails(&o, &cand, &mut evals) {
                    md = cand;
                }
            }
        }
    }
    shrink_opts(&mut o, &md, &mut evals, &fails);
    Shrunk { o, md, evals }
}

fn chars_at(s: &str, i: usize) -> char {
    s.chars().nth(i).unwrap_or('a')
}

fn shrink_opts(o: &mut Opts, md: &str, evals: &mut usize, fails: &dyn Fn(&Opts, &str, &mut usize) -> bool) {
    for i in 0..o.bits.len() {
        if o.bits[i] {
            let mut c = o.clone();
            c.bits[i] = false;
            if fails(&c, md, evals) {
                *o = c;
            }
        }
    }
    if o.width > 0 {
        let mut c = o.clone();
        c.width = 0;
        if fails(&c, md, evals) {
            *o = c;
        } else {
            // largest width that still fails is the least surprising witness; try a few canonical ones
            for w in [120usize, 80, 40, 20, 10, 5, 1] {
                if w == o.width {
                    continue;
                }
                let mut c = o.clone();
                c.width = w;
                if fails(&c, md, evals) {
                    *o = c;
                    break;
                }
            }
        }
    }
    if o.ol_width > 0 {
        let mut c = o.clone();
        c.ol_width = 0;
        if fails(&c, md, evals) {
            *o = c;
        }
    }
    if o.list_style > 0 {
        let mut c = o.clone();
        c.list_style = 0;
        if fails(&c, md, evals) {
            *o = c;
        }
    }
    if o.front_matter_delimiter.is_some() {
        let mut c = o.clone();
        c.front_matter_delimiter = None;
        if fails(&c, md, evals) {
            *o = c;
        }
    }
    if o.default_info_string.is_some() {
        let mut c = o.clone();
        c.default_info_string = None;
        if fails(&c, md, evals) {
            *o = c;
        }
    }
    if o.header_ids.is_some() {
        let mut c = o.clone();
        c.header_ids = None;
        if fails(&c, md, evals) {
            *o = c;
        }
    }
}

/* ---------------------------------------------------------------- classification */

pub fn kind_of(v: &NodeValue) -> &'static str {
    crate::ser::kind_name(v)
}

/// Structural features of the parsed (shrunk) document.
pub struct Feat {
    pub kinds: Vec<&'static str>,
    pub paths: Vec<String>,
}

pub fn with_parsed<R>(o: &Opts, md: &str, f: impl for<'a> FnOnce(&'a AstNode<'a>) -> R) -> Option<R> {
    let c = o.to_comrak();
    catch_unwind(AssertUnwindSafe(|| {
        let arena = Arena::new();
        let root = parse_document(&arena, md, &c);
        f(root)
    }))
    .ok()
}

/// The option the failure needs, among the writer's own options, `smart` and front matter (those the
/// shrinker could not switch off); when several are needed the first of width, ol_width, smart,
/// prefer_fenced, list_style, front_matter names the class. The extension a failure needs is visible
/// in the construct kinds of the delta (table, strikethrough, link, footnote_*, taskitem).
pub fn opts_sig(o: &Opts) -> String {
    if o.width > 0 {
        return "width".into();
    }
    if o.ol_width > 0 {
        return "ol_width".into();
    }
    for n in ["smart", "prefer_fenced", "hardbreaks"] {
        if o.get(n) {
            return n.to_string();
        }
    }
    if o.list_style > 0 {
        return "list_style".into();
    }
    if o.front_matter_delimiter.is_some() {
        return "front_matter".into();
    }
    String::new()
}

/// Generic fingerprint: the set of non-trivial node kinds of the shrunk document + the options that matter.
pub fn fingerprint(o: &Opts, md: &str) -> String {
    let kinds = with_parsed(o, md, |root| {
        let mut ks: Vec<&'static str> = root
            .descendants()
            .map(|n| kind_of(&n.data.borrow().value))
            .filter(|k| !matches!(*k, "document" | "paragraph" | "text"))
            .collect();
        ks.sort();
        ks.dedup();
        ks
    })
    .unwrap_or_default();
    format!("unclassified:{}:{}", kinds.join(","), opts_sig(o))
}

#[allow(dead_code)]
pub fn is_ordered<'a>(n: &'a AstNode<'a>) -> bool {
    matches!(n.data.borrow().value, NodeValue::List(ref l) if l.list_type == ListType::Ordered)
}

/* ---------------------------------------------------------------- search loop */

pub fn par_map<T: Sync, R: Send>(items: &[T], f: impl Fn(&T) -> R + Sync) -> Vec<R> {
    let workers = std::thread::available_parallelism().map(|n| n.get()).unwrap_or(4).min(16).max(1);
    let chunk = ((items.len() + workers - 1) / workers).max(1);
    let mut out: Vec<Vec<R>> = Vec::new();
    std::thread::scope(|sc| {
        let mut hs = Vec::new();
        for part in items.chunks(chunk) {
            let f = &f;
            hs.push(sc.spawn(move || part.iter().map(|x| f(x)).collect::<Vec<R>>()));
        }
        for h in hs {
            out.push(h.join().expect("worker panicked"));
        }
    });
    out.into_iter().flatten().collect()
}

pub struct Case {
    pub o: Opts,
    pub md: String,
    pub src: &'static str,
}

pub fn gen_cases(seed: u64, n: usize) -> Vec<Case> {
    let mut rng = Rng::new(seed);
    let n_canon = if std::env::var("CMRT_NOCANON").is_ok() { 0 } else { n / 4 };
    let mut cases: Vec<Case> = (0..n - n_canon)
        .map(|_| {
            let md = std_doc(&mut rng);
            let o = gen_opts(&mut rng);
            Case { o, md, src: "std-constructs" }
        })
        .collect();
    // canonical documents of the C03 model (`canon <seed> <size>` of the Lean driver): inside the class by construction
    if n_canon > 0 {
        let m = crate::model::Model::from_env();
        let reqs: Vec<String> = (0..n_canon).map(|_| format!("canon {} {}", rng.below(1_000_000), rng.range(1, 14))).collect();
        for resp in m.batch(&reqs) {
            let t: Vec<&str> = resp.split(' ').collect();
            if t.len() >= 3 && t[0] == "ok" && t[1] == "1" {
                if let Some(md) = crate::util::unhex(t[2]).and_then(|b| String::from_utf8(b).ok()) {
                    let o = gen_opts(&mut rng);
                    cases.push(Case { o, md, src: "canon" });
                }
            }
        }
    }
    cases
}

/// One search run of a clause: evaluates the clause on every case (parallel), shrinks and
/// classifies the failures, and records them in the report.
pub fn search(rep: &mut crate::report::Report, cases: &[Case], cl: Clause, shrink_budget: usize) {
    let res: Vec<Option<String>> = par_map(cases, |c| match roundtrip(&c.o, &c.md) {
        Err(e) => Some(e),
        Ok(rt) => check_rt(&rt, cl),
    });
    let skipped = res.iter().filter(|r| matches!(r, Some(e) if e.starts_with("SKIP"))).count();
    rep.add("skipped-parser-panic(C01's subject)", skipped as u64);
    let failing: Vec<&Case> = cases.iter().zip(&res).filter(|(_, r)| matches!(r, Some(e) if !e.starts_with("SKIP"))).map(|(c, _)| c).collect();
    for c in cases {
        rep.s_evals += 1;
        rep.count(&format!("gen-{}", c.src));
        rep.count(if c.o.width == 0 { "width-0" } else if c.o.width < 10 { "width-1..9" } else if c.o.width < 40 { "width-10..39" } else { "width-40..120" });
        rep.count(&format!("list_style-{}", c.o.list_style));
        rep.count(if c.o.ol_width == 0 { "ol_width-0" } else { "ol_width-1..8" });
        if c.o.get("prefer_fenced") {
            rep.count("prefer_fenced");
        }
        for e in GFM_EXT {
            if c.o.get(e) {
                rep.count(&format!("ext-{}", e));
            }
        }
    }
    rep.add("failing-before-shrink", failing.len() as u64);
    let shrunk: Vec<(Shrunk, String, String)> = par_map(&failing, |c| {
        let s = shrink(&c.o, &c.md, cl, shrink_budget);
        let detail = check(&s.o, &s.md, cl).unwrap_or_else(|| "(no longer failing after shrink)".into());
        let raw = std::env::var("CMRT_RAW").is_ok() || detail.starts_with("PANIC");
        // attribute the shrunk input; shrinking may have left the claimed class (a deleted character can
        // create a construct the generator never writes), so an unexplained shrunk input falls back to
        // the generated document itself
        if !raw {
            if let Some(cs) = cause(&s.o, &s.md, cl) {
                return (s, cs, detail);
            }
            if let Some(cs) = cause(&c.o, &c.md, cl) {
                let d0 = check(&c.o, &c.md, cl).unwrap_or_default();
                return (Shrunk { o: c.o.clone(), md: c.md.clone(), evals: s.evals }, cs, d0);
            }
        }
        let sig = mechanical(&s.o, &s.md, cl, &detail);
        (s, sig, detail)
    });
    for (s, sig, detail) in shrunk {
        rep.add("shrink-evaluations", s.evals as u64);
        let kind = if detail.starts_with("PANIC") { "roundtrip-total" } else { cl.kind() };
        rep.count(&format!("fail-{}", sig));
        rep.fail(kind, &sig, crate::htmlk::doc_input(&s.o, &s.md), format!("md={:?} opts=[{}] :: {}", crate::util::show(s.md.as_bytes()), s.o.describe(), detail));
    }
}

/* ---- delta classification ------------------------------------------------------------------
   The class of a failure is read off the shrunk input and its own round trip: the first node (in
   document order) at which parse(x) and parse(cm(parse x)) differ, described by the construct kind
   on the original side, what it became, the kind of its parent (context) and the options that the
   failure needs (those the shrinker could not switch off). */

#[derive(Clone, Debug)]
pub struct N {
    pub kind: &'static str,
    /// (attribute name, value) pairs the CommonMark and HTML writers read
    pub attrs: Vec<(&'static str, String)>,
    pub kids: Vec<N>,
}

fn attrs_of(v: &NodeValue) -> Vec<(&'static str, String)> {
    match v {
        NodeValue::FrontMatter(s) => vec![("literal", s.clone())],
        NodeValue::Text(s) => vec![("text", s.clone())],
        NodeValue::HtmlInline(s) | NodeValue::Raw(s) | NodeValue::EscapedTag(s) => vec![("literal", s.clone())],
        NodeValue::List(l) => vec![
            ("type", format!("{:?}", l.list_type)),
            ("tight", l.tight.to_string()),
            ("start", if l.list_type == ListType::Ordered { l.start.to_string() } else { String::new() }),
            ("delim", if l.list_type == ListType::Ordered { format!("{:?}", l.delimiter) } else { String::new() }),
        ],
        NodeValue::CodeBlock(c) => vec![("info", c.info.clone()), ("literal", c.literal.clone())],
        NodeValue::HtmlBlock(h) => vec![("literal", h.literal.clone())],
        NodeValue::Heading(h) => vec![("level", h.level.to_string())],
        NodeValue::FootnoteDefinition(f) => vec![("name", f.name.clone())],
        NodeValue::Table(t) => vec![("aligns", format!("{:?}", t.alignments))],
        NodeValue::TableRow(h) => vec![("header", h.to_string())],
        NodeValue::TaskItem(s) => vec![("symbol", format!("{:?}", s))],
        NodeValue::Code(c) => vec![("literal", c.literal.clone())],
        NodeValue::Link(l) | NodeValue::Image(l) => vec![("url", l.url.clone()), ("title", l.title.clone())],
        NodeValue::WikiLink(l) => vec![("url", l.url.clone())],
        NodeValue::FootnoteReference(f) => vec![("name", f.name.clone())],
        NodeValue::Math(m) => vec![("literal", m.literal.clone())],
        _ => vec![],
    }
}

pub fn simplify<'a>(n: &'a AstNode<'a>) -> N {
    let v = n.data.borrow().value.clone();
    let kind = kind_of(&v);
    let mut kids = vec![];
    for c in n.children() {
        let cv = c.data.borrow().value.clone();
        // the two admitted normalisations
        if let NodeValue::HtmlBlock(ref h) = cv {
            if h.literal == "<!-- end list -->\n" {
                continue;
            }
        }
        let sc = simplify(c);
        if kind == "strong" && sc.kind == "strong" {
            kids.extend(sc.kids);
        } else {
            kids.push(sc);
        }
    }
    N { kind, attrs: attrs_of(&v), kids }
}

fn char_class(c: Option<char>) -> String {
    match c {
        None => "end".into(),
        Some(' ') => "space".into(),
        Some('\n') => "newline".into(),
        Some('\t') => "tab".into(),
        Some(c) if c.is_ascii_alphanumeric() => "alnum".into(),
        Some(c) if c.is_ascii_punctuation() => format!("'{}'", c),
        Some(c) if (c as u32) < 0x20 => "control".into(),
        Some('\u{feff}') => "BOM".into(),
        Some(_) => "non-ascii".into(),
    }
}

fn ctx_class(k: &str) -> &str {
    match k {
        "document" => "top",
        "block_quote" => "block_quote",
        "item" | "taskitem" => "item",
        "list" => "list",
        "footnote_definition" => "footnote_definition",
        "table" | "table_row" => "table",
        "heading" | "table_cell" => k,
        "root" => "root",
        _ => "inline",
    }
}

/// First difference in document order, as `context:what`.
pub fn first_delta(a: &N, b: &N, parent: &'static str) -> Option<String> {
    if a.kind != b.kind {
        return Some(format!("{}:{}->{}", ctx_class(parent), a.kind, b.kind));
    }
    for ((n, x), (_, y)) in a.attrs.iter().zip(b.attrs.iter()) {
        if x != y {
            if *n == "text" || (*n == "literal" && matches!(a.kind, "code" | "code_block" | "html_block" | "html_inline")) {
                let (xa, ya): (Vec<char>, Vec<char>) = (x.chars().collect(), y.chars().collect());
                let mut i = 0;
                while i < xa.len() && i < ya.len() && xa[i] == ya[i] {
                    i += 1;
                }
                let coarse = |c: Option<char>| -> String {
                    match c {
                        Some(' ') | Some('\n') | Some('\t') => "space".into(),
                        Some(c) if c.is_ascii_punctuation() => "punct".into(),
                        None => "end".into(),
                        _ => "other".into(),
                    }
                };
                let is_text = *n == "text";
                let what = if i == xa.len() {
                    // which delimiter failed to re-parse (text only)
                    if is_text { format!("extended-by:{}", char_class(ya.get(i).copied())) } else { "extended".to_string() }
                } else if i == ya.len() {
                    if is_text { format!("cut-at:{}", coarse(xa.get(i).copied())) } else { "cut".to_string() }
                } else if i == 0 {
                    if is_text { format!("first-char:{}", coarse(xa.get(i).copied())) } else { "first-char".to_string() }
                } else if is_text {
                    format!("changed-at:{}", coarse(xa.get(i).copied()))
                } else {
                    "changed".to_string()
                };
                return Some(format!("{}:{}.{}:{}", ctx_class(parent), a.kind, n, what));
            }
            return Some(format!("{}:{}.{}", ctx_class(parent), a.kind, n));
        }
    }
    let mut i = 0;
    while i < a.kids.len() && i < b.kids.len() {
        if let Some(d) = first_delta(&a.kids[i], &b.kids[i], a.kind) {
            // a text that was cut or extended: say what follows it on the longer side
            if a.kids[i].kind == "text" && !d.contains(" next:") {
                if d.contains(":cut-at:") {
                    return Some(format!("{} next:{}", d, b.kids.get(i + 1).map(|n| n.kind).unwrap_or("none")));
                }
                if d.contains(":extended-by:") {
                    return Some(format!("{} next:{}", d, a.kids.get(i + 1).map(|n| n.kind).unwrap_or("none")));
                }
            }
            return Some(d);
        }
        i += 1;
    }
    if i < a.kids.len() {
        return Some(format!("{}:{}->none", ctx_class(a.kind), a.kids[i].kind));
    }
    if i < b.kids.len() {
        return Some(format!("{}:none->{}", ctx_class(a.kind), b.kids[i].kind));
    }
    None
}

/// Simplified trees of parse(x) and parse(cm(parse x)) under the oracle's normalisations.
pub fn trees(o: &Opts, md: &str) -> Option<(N, N, String)> {
    let c = o.to_comrak();
    catch_unwind(AssertUnwindSafe(|| {
        let arena = Arena::new();
        let root = parse_document(&arena, md, &c);
        let mut cm1 = Vec::new();
        format_commonmark(root, &c, &mut cm1).unwrap();
        let s1 = String::from_utf8(cm1).ok()?;
        let root1 = parse_document(&arena, &s1, &c);
        normalize_ws(root, o.width > 0);
        normalize_ws(root1, o.width > 0);
        Some((simplify(root), simplify(root1), s1))
    }))
    .ok()
    .flatten()
}

fn line_class(l: &str) -> &'static str {
    let t = l.trim_start_matches(|c| c == '>' || c == ' ');
    if t.is_empty() {
        if l.is_empty() {
            "empty"
        } else {
            "prefix-only"
        }
    } else if t.starts_with("<!-- end list -->") {
        "end-list-comment"
    } else if t.starts_with("```") || t.starts_with("~~~") {
        "fence"
    } else if t.contains('\\') {
        "text-with-escape"
    } else {
        "text"
    }
}

/// For failures where both parses agree on everything the writers read: the first line at which the
/// two CommonMark renderings differ, by line class.
fn line_delta(a: &[u8], b: &[u8]) -> String {
    let (sa, sb) = (String::from_utf8_lossy(a).to_string(), String::from_utf8_lossy(b).to_string());
    let (la, lb): (Vec<&str>, Vec<&str>) = (sa.split('\n').collect(), sb.split('\n').collect());
    let mut i = 0;
    while i < la.len() && i < lb.len() && la[i] == lb[i] {
        i += 1;
    }
    format!("line:{}->{}", la.get(i).map(|l| line_class(l)).unwrap_or("end"), lb.get(i).map(|l| line_class(l)).unwrap_or("end"))
}

/* ---- root-cause attribution by counterfactual -------------------------------------------------
   A failure is attributed to mechanism M iff removing M's trigger from the parsed document (a
   transformation of the tree, before formatting) makes the same clause pass on the transformed
   document. Each transformation is one listed finding. A failure that no single transformation (nor
   all of them together) explains keeps its mechanical signature and is a VIOLATION. */

#[derive(Clone, Copy, PartialEq, Debug)]
pub enum Cf {
    Digit,
    QuoteLiteral,
    Loose,
    EmphRuns,
    HeadingBreak,
    LinkInLink,
    CodeAdjacent,
    LeadingSpace,
    Tilde,
    Pipe,
    EmptyItem,
    EndList,
    HtmlInlineLineStart,
    UnterminatedHtml,
    Caret,
    EmptyUrlTitle,
    InfoBackslash,
    AutolinkForm,
    Amp,
    TaskFirst,
    HtmlIndent,
    NestedBullets,
    HtmlInlineMultiline,
    FirstInItem,
    EmphAll,
}

pub const CFS: &[(Cf, &str)] = &[
    (Cf::Digit, "ordered-marker-width-grows-at-digit-boundary"),
    (Cf::QuoteLiteral, "blank-line-after-literal-block-in-block-quote-loses-prefix"),
    (Cf::EmptyItem, "empty-list-item"),
    (Cf::FirstInItem, "item-starting-with-break-html-or-table-leaves-bare-marker-line"),
    (Cf::Loose, "tight-list-item-suppresses-needed-blank-line"),
    (Cf::EmphRuns, "adjacent-emphasis-delimiter-runs-merge"),
    (Cf::HeadingBreak, "hard-break-inside-heading"),
    (Cf::LinkInLink, "link-inside-link"),
    (Cf::CodeAdjacent, "adjacent-indented-code-blocks-merge"),
    (Cf::LeadingSpace, "text-starting-with-space"),
    (Cf::Tilde, "tilde-not-escaped"),
    (Cf::Pipe, "table-delimiter-row-lookalike-not-escaped"),
    (Cf::EndList, "end-of-list-comment-is-itself-a-literal-block"),
    (Cf::HtmlInlineLineStart, "inline-html-at-start-of-continuation-line-becomes-html-block"),
    (Cf::UnterminatedHtml, "html-block-without-end-condition-swallows-blank-line"),
    (Cf::Caret, "caret-after-bracket-not-escaped"),
    (Cf::EmptyUrlTitle, "empty-destination-with-title"),
    (Cf::InfoBackslash, "backslash-in-info-string-not-escaped"),
    (Cf::AutolinkForm, "angle-autolink-form-for-address-that-does-not-rescan"),
    (Cf::Amp, "ampersand-escape-depends-on-text-node-boundary"),
    (Cf::TaskFirst, "task-item-whose-first-block-is-not-a-paragraph"),
    (Cf::HtmlIndent, "indented-html-block-after-list-joins-the-item"),
    (Cf::NestedBullets, "nested-empty-bullet-markers-spell-a-thematic-break"),
    (Cf::HtmlInlineMultiline, "multi-line-inline-html-loses-continuation-indent"),
    (Cf::EmphAll, "emphasis-respelled-with-asterisk-or-next-to-decoded-entity-changes-flanking"),
];

fn is_emphish(v: &NodeValue) -> bool {
    matches!(v, NodeValue::Emph | NodeValue::Strong)
}

fn unwrap_node<'a>(n: &'a AstNode<'a>) {
    let kids: Vec<&'a AstNode<'a>> = n.children().collect();
    for c in kids {
        n.insert_before(c);
    }
    n.detach();
}

fn apply_cf<'a>(arena: &'a Arena<AstNode<'a>>, root: &'a AstNode<'a>, cf: Cf) {
    let nodes: Vec<&'a AstNode<'a>> = root.descendants().collect();
    let mk = |v: NodeValue| -> &'a AstNode<'a> { arena.alloc(AstNode::from(v)) };
    for n in nodes {
        let v = n.data.borrow().value.clone();
        match cf {
            Cf::Digit => {
                if let NodeValue::List(ref mut l) = n.data.borrow_mut().value {
                    l.start = 1;
                }
            }
            Cf::Loose => {
                // loose, and re-parsed as loose: every item gets a second paragraph
                if let NodeValue::List(ref mut l) = n.data.borrow_mut().value {
                    l.tight = false;
                }
                if matches!(v, NodeValue::Item(_) | NodeValue::TaskItem(_)) {
                    let p = mk(NodeValue::Paragraph);
                    p.append(mk(NodeValue::Text("x".into())));
                    n.append(p);
                }
            }
            Cf::FirstInItem => {
                if matches!(v, NodeValue::Item(_) | NodeValue::TaskItem(_)) {
                    let first_bare = n.first_child().map_or(false, |c| matches!(c.data.borrow().value, NodeValue::ThematicBreak | NodeValue::HtmlBlock(_) | NodeValue::Table(_)));
                    if first_bare {
                        let p = mk(NodeValue::Paragraph);
                        p.append(mk(NodeValue::Text("x".into())));
                        n.prepend(p);
                    }
                }
            }
            Cf::EmphAll => {
                if is_emphish(&v) {
                    unwrap_node(n);
                }
            }
            Cf::HtmlIndent => {
                if let NodeValue::HtmlBlock(ref mut h) = n.data.borrow_mut().value {
                    h.literal = h.literal.trim_start_matches(' ').to_string();
                }
            }
            Cf::NestedBullets => {
                let nested = n.parent().map_or(false, |p| matches!(p.data.borrow().value, NodeValue::Item(_)));
                if nested {
                    if let NodeValue::List(ref mut l) = n.data.borrow_mut().value {
                        l.list_type = ListType::Ordered;
                        l.start = 1;
                    }
                }
            }
            Cf::HtmlInlineMultiline => {
                let multi = matches!(v, NodeValue::HtmlInline(ref h) if h.contains('\n'));
                if multi {
                    n.data.borrow_mut().value = NodeValue::Text("h".into());
                }
            }
            Cf::QuoteLiteral => {
                let in_quote = n.ancestors().skip(1).any(|a| matches!(a.data.borrow().value, NodeValue::BlockQuote));
                if in_quote {
                    match v {
                        NodeValue::CodeBlock(_) => {
                            if let NodeValue::CodeBlock(ref mut c) = n.data.borrow_mut().value {
                                if c.info.is_empty() {
                                    c.info = "x".into();
                                }
                            }
                        }
                        NodeValue::HtmlBlock(_) => {
                            n.data.borrow_mut().value = NodeValue::Paragraph;
                            n.append(mk(NodeValue::Text("h".into())));
                        }
                        _ => {}
                    }
                }
            }
            Cf::EmptyItem => {
                if matches!(v, NodeValue::Item(_) | NodeValue::TaskItem(_)) && n.first_child().is_none() {
                    let p = mk(NodeValue::Paragraph);
                    p.append(mk(NodeValue::Text("x".into())));
                    n.append(p);
                }
            }
            Cf::EmphRuns => {
                if is_emphish(&v) {
                    let parent_emph = n.parent().map_or(false, |p| is_emphish(&p.data.borrow().value));
                    let prev_emph = n.previous_sibling().map_or(false, |p| is_emphish(&p.data.borrow().value));
                    if parent_emph || prev_emph {
                        unwrap_node(n);
                    }
                }
            }
            Cf::HeadingBreak => {
                if matches!(v, NodeValue::LineBreak) && n.ancestors().any(|a| matches!(a.data.borrow().value, NodeValue::Heading(_))) {
                    n.data.borrow_mut().value = NodeValue::Text(" ".into());
                }
            }
            Cf::LinkInLink => {
                if matches!(v, NodeValue::Link(_)) && n.ancestors().skip(1).any(|a| matches!(a.data.borrow().value, NodeValue::Link(_) | NodeValue::Image(_))) {
                    unwrap_node(n);
                }
            }
            Cf::CodeAdjacent => {
                if let NodeValue::CodeBlock(_) = v {
                    let prev_code = n.previous_sibling().map_or(false, |p| matches!(p.data.borrow().value, NodeValue::CodeBlock(_)));
                    if prev_code {
                        if let NodeValue::CodeBlock(ref mut c) = n.data.borrow_mut().value {
                            if c.info.is_empty() {
                                c.info = "x".into();
                            }
                        }
                    }
                }
            }
            Cf::LeadingSpace | Cf::Tilde | Cf::Pipe | Cf::Caret | Cf::Amp => {
                if let NodeValue::Text(ref mut t) = n.data.borrow_mut().value {
                    match cf {
                        Cf::LeadingSpace => *t = t.trim_start_matches(' ').to_string(),
                        Cf::Tilde => *t = t.replace('~', "x"),
                        Cf::Caret => *t = t.replace('^', "x"),
                        Cf::Amp => *t = t.replace('&', "x"),
                        _ => *t = t.replace('|', "x").replace(':', "x"),
                    }
                }
            }
            Cf::EndList => {
                if matches!(v, NodeValue::List(_)) {
                    let next_lit = n.next_sibling().map_or(false, |x| matches!(x.data.borrow().value, NodeValue::List(_) | NodeValue::CodeBlock(_)));
                    if next_lit {
                        let p = mk(NodeValue::Paragraph);
                        p.append(mk(NodeValue::Text("x".into())));
                        n.insert_after(p);
                    }
                }
            }
            Cf::HtmlInlineLineStart => {
                if matches!(v, NodeValue::SoftBreak | NodeValue::LineBreak) {
                    let next_html = n.next_sibling().map_or(false, |x| matches!(x.data.borrow().value, NodeValue::HtmlInline(_)));
                    if next_html {
                        n.data.borrow_mut().value = NodeValue::Text("x ".into());
                    }
                }
            }
            Cf::UnterminatedHtml => {
                if let NodeValue::HtmlBlock(ref mut h) = n.data.borrow_mut().value {
                    if h.block_type >= 1 && h.block_type <= 5 {
                        h.literal = "<div>\n".into();
                        h.block_type = 6;
                    }
                }
            }
            Cf::EmptyUrlTitle => {
                if let NodeValue::Link(ref mut l) | NodeValue::Image(ref mut l) = n.data.borrow_mut().value {
                    if l.url.is_empty() {
                        l.title.clear();
                    }
                }
            }
            Cf::InfoBackslash => {
                if let NodeValue::CodeBlock(ref mut c) = n.data.borrow_mut().value {
                    c.info = c.info.replace('\\', "x");
                }
            }
            Cf::AutolinkForm => {
                let first_text = n.first_child().and_then(|c| match c.data.borrow().value {
                    NodeValue::Text(ref t) => Some(t.clone()),
                    _ => None,
                });
                if let NodeValue::Link(ref mut l) = n.data.borrow_mut().value {
                    if l.title.is_empty() && first_text.map_or(false, |t| l.url.strip_prefix("mailto:").unwrap_or(&l.url) == t) {
                        l.title = "t".into();
                    }
                }
            }
            Cf::TaskFirst => {
                if matches!(v, NodeValue::TaskItem(_)) {
                    let first_par = n.first_child().map_or(true, |c| matches!(c.data.borrow().value, NodeValue::Paragraph));
                    if !first_par {
                        let p = mk(NodeValue::Paragraph);
                        p.append(mk(NodeValue::Text("x".into())));
                        n.prepend(p);
                    }
                }
            }
        }
    }
}

/// Does `cl` fail on the document obtained from `md` by the transformations `cfs`? (`None`: panic.)
pub fn fails_with(o: &Opts, md: &str, cfs: &[Cf], cl: Clause) -> Option<bool> {
    let c = o.to_comrak();
    let hc = html_view(o).to_comrak();
    catch_unwind(AssertUnwindSafe(|| {
        let arena = Arena::new();
        let root = parse_document(&arena, md, &c);
        for cf in cfs {
            apply_cf(&arena, root, *cf);
        }
        let mut cm1 = Vec::new();
        format_commonmark(root, &c, &mut cm1).unwrap();
        let s1 = String::from_utf8(cm1.clone()).unwrap_or_default();
        let root1 = parse_document(&arena, &s1, &c);
        match cl {
            Clause::Idem => {
                let mut cm2 = Vec::new();
                format_commonmark(root1, &c, &mut cm2).unwrap();
                cm1 != cm2
            }
            Clause::Html => {
                normalize_ws(root, o.width > 0);
                normalize_ws(root1, o.width > 0);
                let (mut h0, mut h1) = (Vec::new(), Vec::new());
                format_html(root, &hc, &mut h0).unwrap();
                format_html(root1, &hc, &mut h1).unwrap();
                strip_end_list(&h0) != strip_end_list(&h1)
            }
        }
    }))
    .ok()
}

/// The listed mechanism that explains the failure of `cl` on (o, md), if one does.
pub fn cause(o: &Opts, md: &str, cl: Clause) -> Option<String> {
    if fails_with(o, md, &[], cl) != Some(true) {
        return None;
    }
    for (cf, name) in CFS {
        if fails_with(o, md, &[*cf], cl) == Some(false) {
            if matches!(cf, Cf::FirstInItem) {
                // the recorded mechanism needs the bare marker line to follow a non-blank line (it cannot
                // interrupt a paragraph) or to stand next to another marker; a bare marker line after a blank
                // line re-parses as the same item on the pinned tree and gets a signature of its own
                if let Ok(rt) = roundtrip(o, md) {
                    let mut ctx = bare_marker_context(&rt.cm1);
                    if ctx == ":after-blank-line" && o.ol_width > 0 {
                        // `ol_width` pads the marker; on a bare marker line the padding is trailing white
                        // space, the content column falls back to marker + 1 and the block keeps extra indent
                        let mut o0 = o.clone();
                        o0.ol_width = 0;
                        if fails_with(&o0, md, &[], cl) == Some(false) {
                            ctx = ":after-blank-line-marker-padded-by-ol-width";
                        }
                    }
                    return Some(format!("{}{}", name, ctx));
                }
            }
            return Some(name.to_string());
        }
    }
    let all: Vec<Cf> = CFS.iter().map(|c| c.0).collect();
    if fails_with(o, md, &all, cl) == Some(false) {
        // which of them are needed: drop each in turn
        let mut needed: Vec<&str> = vec![];
        for (i, (_, name)) in CFS.iter().enumerate() {
            let without: Vec<Cf> = all.iter().enumerate().filter(|(j, _)| *j != i).map(|(_, c)| *c).collect();
            if fails_with(o, md, &without, cl) == Some(true) {
                needed.push(name);
            }
        }
        let _ = needed;
        return Some("several-listed-mechanisms-together".to_string());
    }
    None
}

/// Strips block-quote markers and indentation, then list markers; returns (number of list markers,
/// whether anything else is left on the line).
fn marker_line(line: &[u8]) -> (usize, bool) {
    let mut i = 0;
    let mut k = 0;
    loop {
        while i < line.len() && (line[i] == b' ' || line[i] == b'>') {
            i += 1;
        }
        if i >= line.len() {
            return (k, false);
        }
        let mut j = i;
        if matches!(line[j], b'-' | b'+' | b'*') {
            j += 1;
        } else {
            while j < line.len() && line[j].is_ascii_digit() {
                j += 1;
            }
            if j == i || j >= line.len() || !matches!(line[j], b'.' | b')') {
                return (k, true);
            }
            j += 1;
        }
        if j < line.len() && line[j] != b' ' {
            return (k, true);
        }
        k += 1;
        i = j;
    }
}

/// Where the bare marker lines of a first-pass output stand: "" when one of them directly follows a
/// non-blank line, ":several-markers-on-the-line" when one carries two or more markers, and
/// ":after-blank-line" when every one of them has a single marker and follows a blank line or nothing.
pub fn bare_marker_context(cm1: &[u8]) -> &'static str {
    let lines: Vec<&[u8]> = cm1.split(|b| *b == b'\n').collect();
    let mut several = false;
    for (n, l) in lines.iter().enumerate() {
        let (k, rest) = marker_line(l);
        if k == 0 || rest {
            continue;
        }
        if n > 0 {
            let (pk, prest) = marker_line(lines[n - 1]);
            if pk > 0 || prest {
                return "";
            }
        }
        if k >= 2 {
            several = true;
        }
    }
    if several {
        ":several-markers-on-the-line"
    } else {
        ":after-blank-line"
    }
}

pub fn mechanical(o: &Opts, md: &str, cl: Clause, detail: &str) -> String {
    if detail.starts_with("PANIC") {
        return format!("panic:{}", fingerprint(o, md));
    }
    let os = opts_sig(o);
    match trees(o, md) {
        None => format!("no-trees:{}", fingerprint(o, md)),
        Some((a, b, _)) => match first_delta(&a, &b, "root") {
            Some(d) => format!("{} [{}]", d, os),
            None => match (cl, roundtrip(o, md)) {
                (Clause::Idem, Ok(rt)) => format!("same-tree:{} [{}]", line_delta(&rt.cm1, &rt.cm2), os),
                _ => format!("same-tree:{}", fingerprint(o, md)),
            },
        },
    }
}

pub fn classify(o: &Opts, md: &str, cl: Clause, detail: &str) -> String {
    if std::env::var("CMRT_RAW").is_err() && !detail.starts_with("PANIC") {
        if let Some(c) = cause(o, md, cl) {
            return c;
        }
    }
    mechanical(o, md, cl, detail)
}

pub fn replay(cl: Clause, kind: &str, input: &str) -> Result<Option<String>, String> {
    let (o, md) = crate::htmlk::parse_doc_input(input).ok_or("bad replay input (want: doc <opts> <hex>)")?;
    let _ = kind;
    Ok(check(&o, &md, cl))
}

/* ---------------------------------------------------------------- K: renderCm vs format_commonmark */

/// Byte-equality of the Lean `renderCm` with the real `format_commonmark` on parsed documents and
/// directly built trees x random option vectors (all options, `experimental_minimize_commonmark` off:
/// it re-runs parser and writer and is outside the model).
pub fn run_k(rep: &mut crate::report::Report, seed: u64, n: usize, cl: Clause) {
    use crate::htmlk::gen_case;
    use crate::model::{Batch, Model};
    let m = Model::from_env();
    let corpus = Corpus::load();
    let mut rng = Rng::new(seed);
    let mut done = 0;
    while done < n {
        let mut bt = Batch::new();
        for _ in 0..2000.min(n - done) {
            done += 1;
            let (src, name) = if rng.chance(1, 3) {
                let (md, _) = gen_doc_wide(&mut rng, &corpus);
                (crate::htmlk::Src::Doc(md), "cm-class-doc")
            } else {
                gen_case(&mut rng, &corpus)
            };
            let mut o = if rng.chance(1, 2) { gen_opts_wide(&mut rng) } else { Opts::random(&mut rng) };
            o.set("experimental_minimize_commonmark", false);
            if rng.chance(1, 3) {
                o.width = rng.range(1, 120);
            }
            let input = src.input(&o);
            let c = o.to_comrak();
            let r = src.with_root(&o, |root| {
                let mut out = Vec::new();
                format_commonmark(root, &c, &mut out).unwrap();
                (out, crate::ser::ser_tree(root), crate::ser::kind_seq(root))
            });
            match r {
                Err(e) => {
                    if e.contains("parse_document") {
                        rep.count("k-skipped-parser-panic(C01's subject)");
                    } else if name == "direct-tree" {
                        // ill-formed direct trees make format_commonmark panic (unreachable!/index): outside the model
                        rep.count("k-skipped-writer-panic-on-direct-tree");
                    } else {
                        rep.fail("cm-total", "panic-on-parsed-document", input, e);
                    }
                }
                Ok((real, wire, kinds)) => {
                    if let crate::htmlk::Src::Doc(md) = &src {
                        if let Ok(sc) = catch_unwind(AssertUnwindSafe(|| comrak::markdown_to_commonmark(md, &c))) {
                            rep.s_evals += 1;
                            if sc.as_bytes() != real.as_slice() {
                                rep.fail("string-api-differs", "markdown_to_commonmark", input.clone(), crate::util::diff_window(&real, sc.as_bytes()).replace("real", "parse+format_commonmark").replace("model", "markdown_to_commonmark"));
                            }
                        }
                    }
                    rep.count(&format!("k-gen-{}", name));
                    if kinds.len() > 1 {
                        rep.nontrivial(&(kinds.clone(), o.width, o.ol_width, o.list_style));
                    }
                    for k in &kinds {
                        rep.count(&format!("k-kind-{}", k));
                    }
                    if rep.samples.len() < 6 && kinds.len() > 3 {
                        rep.sample(format!("K: {} opts [{}]", src.show(), o.describe()));
                    }
                    let doc_md = match &src {
                        crate::htmlk::Src::Doc(md) => Some((o.clone(), md.clone())),
                        _ => None,
                    };
                    bt.push(format!("cm {} {}", o.wire(), wire), move |resp, rep| {
                        rep.k_evals += 1;
                        if resp != crate::util::hex(&real) {
                            let mm = crate::util::unhex(resp).unwrap_or_default();
                            // search for a failing input among the disagreeing documents: the clause fails with what
                            // the real writer wrote and holds with what the model (the writer as it was) writes
                            if let Some((o, md)) = &doc_md {
                                if let Some(d) = regression_vs_model(o, md, &real, &mm, cl) {
                                    let kind = if cl == Clause::Html { "html-roundtrip" } else { "cm-idempotent" };
                                    rep.fail(kind, "fails-with-real-writer-holds-with-model-writer", input.clone(), d);
                                }
                            }
                            rep.disagree("cm-bytes", input, crate::util::diff_window(&real, &mm));
                        }
                    });
                }
            }
        }
        bt.run(&m, rep);
    }
}

/// The clause evaluated once with the bytes the real writer produced and once with the bytes the model
/// produced for the same tree (second passes always by the real code). `Some(detail)` iff it fails
/// with the former and holds with the latter.
pub fn regression_vs_model(o: &Opts, md: &str, real_cm: &[u8], model_cm: &[u8], cl: Clause) -> Option<String> {
    let c = o.to_comrak();
    let hc = html_view(o).to_comrak();
    let second = |cm: &[u8]| -> Option<(Vec<u8>, Vec<u8>)> {
        let s = String::from_utf8(cm.to_vec()).ok()?;
        catch_unwind(AssertUnwindSafe(|| {
            let arena = Arena::new();
            let root = parse_document(&arena, &s, &c);
            let mut cm2 = Vec::new();
            format_commonmark(root, &c, &mut cm2).unwrap();
            let mut h = Vec::new();
            normalize_ws(root, o.width > 0);
            format_html(root, &hc, &mut h).unwrap();
            (cm2, strip_end_list(&h))
        }))
        .ok()
    };
    let html0 = catch_unwind(AssertUnwindSafe(|| {
        let arena = Arena::new();
        let root = parse_document(&arena, md, &c);
        let mut h = Vec::new();
        normalize_ws(root, o.width > 0);
        format_html(root, &hc, &mut h).unwrap();
        strip_end_list(&h)
    }))
    .ok()?;
    let (r_cm2, r_html) = second(real_cm)?;
    let (m_cm2, m_html) = second(model_cm)?;
    match cl {
        Clause::Html => {
            if r_html != html0 && m_html == html0 {
                Some(format!("cm={:?} :: html {}", crate::util::show(real_cm), crate::util::diff_window(&html0, &r_html).replace("real", "original").replace("model", "round-tripped")))
            } else {
                None
            }
        }
        Clause::Idem => {
            if r_cm2 != real_cm && m_cm2 == model_cm {
                Some(format!("cm1={:?} :: {}", crate::util::show(real_cm), crate::util::diff_window(real_cm, &r_cm2).replace("real", "first-pass").replace("model", "second-pass")))
            } else {
                None
            }
        }
    }
}

pub fn replay_k(input: &str) -> Result<Option<String>, String> {
    use crate::model::{Batch, Model};
    let (o, src) = crate::htmlk::Src::parse_input(input).ok_or("bad replay input")?;
    let c = o.to_comrak();
    let (real, wire) = src.with_root(&o, |root| {
        let mut out = Vec::new();
        format_commonmark(root, &c, &mut out).unwrap();
        (out, crate::ser::ser_tree(root))
    })?;
    let m = Model::from_env();
    let mut rep = crate::report::Report::new("cm");
    let mut bt = Batch::new();
    let i2 = input.to_string();
    bt.push(format!("cm {} {}", o.wire(), wire), move |resp, rep| {
        if resp != crate::util::hex(&real) {
            let mm = crate::util::unhex(resp).unwrap_or_default();
            rep.disagree("cm-bytes", i2, crate::util::diff_window(&real, &mm));
        }
    });
    bt.run(&m, &mut rep);
    Ok(rep.k_disagree.first().map(|c| format!("{}: {}", c.kind, c.detail)))
}

/// K for the pure helpers through the `comrak::verif` pass-throughs: `shortest_unused_sequence` and
/// `longest_char_sequence` on every string over {'`', 'a'} up to length 11 (exhaustive), on random
/// literals with runs up to 34 (the repaired 32-cap), and with `~` as the counted character.
pub fn run_k_helpers(rep: &mut crate::report::Report, seed: u64) {
    use crate::model::{Batch, Model};
    let m = Model::from_env();
    let mut bt = Batch::new();
    let mut lits: Vec<(Vec<u8>, u8)> = vec![];
    for len in 0..=11usize {
        for bits in 0..(1u32 << len) {
            let lit: Vec<u8> = (0..len).map(|i| if bits >> i & 1 == 1 { b'`' } else { b'a' }).collect();
            lits.push((lit, b'`'));
        }
    }
    rep.exhaustive_what.push("shortest_unused_sequence / longest_char_sequence on all 4095 strings over {`,a} of length <= 11".into());
    let mut rng = Rng::new(seed);
    for _ in 0..3000 {
        let ch = *rng.pick(&[b'`', b'~', b'`']);
        let mut lit = vec![];
        for _ in 0..rng.range(0, 12) {
            let run = match rng.below(6) {
                0 => rng.range(28, 34),
                1 => rng.range(1, 34),
                _ => rng.range(1, 4),
            };
            lit.extend(std::iter::repeat(ch).take(run));
            lit.extend(std::iter::repeat(*rng.pick(&[b'a', b' ', b'\n', b'~', b'`'])).take(rng.range(0, 2)));
        }
        lits.push((lit, ch));
    }
    for (lit, ch) in lits {
        let real_s = catch_unwind(AssertUnwindSafe(|| comrak::verif::shortest_unused_sequence(&lit, ch))).map(|v| v.to_string()).unwrap_or("PANIC".into());
        let real_l = catch_unwind(AssertUnwindSafe(|| comrak::verif::longest_char_sequence(&lit, ch))).map(|v| v.to_string()).unwrap_or("PANIC".into());
        let h = crate::util::hex(&lit);
        let (i1, i2) = (format!("shortest {} {}", h, ch), format!("longest {} {}", h, ch));
        bt.push(format!("cmshortest {} {}", h, ch), move |resp, rep| {
            rep.k_evals += 1;
            if resp != real_s {
                rep.disagree("shortest-unused-sequence", i1, format!("real {} model {}", real_s, resp));
            }
        });
        bt.push(format!("cmlongest {} {}", h, ch), move |resp, rep| {
            rep.k_evals += 1;
            if resp != real_l {
                rep.disagree("longest-char-sequence", i2, format!("real {} model {}", real_l, resp));
            }
        });
    }
    bt.run(&m, rep);
}

/// Exhaustive K for the escape decision: the real `outc` (hook `comrak::verif_cm_hooks::outc`) against
/// the Lean `outcBytes` (the function `outc_escapes_specials` is about) for every byte x escaping mode x
/// begin_content x {nothing, a letter, a digit} before x {end, letter, space, '[', digit, tab} after;
/// and `table_escape` for every byte x {table, row, cell, text, code} node.
pub fn run_k_outc(rep: &mut crate::report::Report) {
    use crate::model::{Batch, Model};
    let m = Model::from_env();
    let mut bt = Batch::new();
    for c in 0..=255u8 {
        for esc in 0..=3u8 {
            for bc in [false, true] {
                for prev in [&b""[..], &b"a"[..], &b"7"[..]] {
                    for nx in [None, Some(b'a'), Some(b' '), Some(b'['), Some(b'1'), Some(b'\t')] {
                        let real = catch_unwind(AssertUnwindSafe(|| comrak::verif_cm_hooks::outc(prev, bc, c, esc, nx)));
                        let real = match real {
                            Ok(v) => crate::util::hex(&v),
                            Err(_) => "PANIC".to_string(),
                        };
                        let req = format!("cmoutc {} {} {} {} {}", crate::util::hex(prev), if bc { 1 } else { 0 }, c, esc, nx.map(|x| x as i32).unwrap_or(-1));
                        let inp = req.clone();
                        bt.push(req, move |resp, rep| {
                            rep.k_evals += 1;
                            if resp != real {
                                rep.disagree("outc-bytes", inp, format!("real {} model {}", real, resp));
                            }
                        });
                    }
                }
            }
        }
        for (kname, v) in [
            ("table", comrak::nodes::NodeValue::Table(Default::default())),
            ("table_row", comrak::nodes::NodeValue::TableRow(false)),
            ("table_cell", comrak::nodes::NodeValue::TableCell),
            ("text", comrak::nodes::NodeValue::Text("x".into())),
            ("code", comrak::nodes::NodeValue::Code(Default::default())),
        ] {
            let real = comrak::verif_cm_hooks::table_escape(v, c);
            let req = format!("cmtesc {} {}", kname, c);
            let inp = req.clone();
            bt.push(req, move |resp, rep| {
                rep.k_evals += 1;
                if resp != if real { "1" } else { "0" } {
                    rep.disagree("table-escape", inp, format!("real {} model {}", real, resp));
                }
            });
        }
    }
    rep.exhaustive_what.push("outc: 256 bytes x 4 escaping modes x begin_content x 3 preceding contexts x 6 following bytes; table_escape: 256 bytes x 5 node kinds".into());
    bt.run(&m, rep);
}
