//! C03: canonical documents parse to exactly the structure they spell.
//! The Lean driver generates a `Doc` (Comrak/Canon) from (seed, size) and answers
//! `<Doc.ok> <hex write d> <hex refHtml d> <wire of toTree d>`: the writer, the tree and the
//! reference renderer executed are the definitions the theorems are about.
//! K: the real `parse_document(write d)`, serialised position-free, equals `toTree d`
//!    (kinds, payloads, nesting; every payload field is compared, none is normalised:
//!    the canonical model determines `marker_offset` = 0, `padding` = marker width + 1,
//!    `fence_offset` = 0, per-item `start`, `tight` on the list node only, `is_task_list`,
//!    the `NodeTable` counters `num_columns` / `num_rows` / `num_nonempty_cells`, and for
//!    footnotes `ix` / `ref_num` / `total_references` after comrak's footnote pass).
//!    Positions: for every node of a kind the documentation calls position-reliable (not lists,
//!    items, task items) for which the model claims a position, the real `sourcepos` equals the
//!    span of `Doc.toTreeP d`; `Doc.posOk d` (C11/C12 oracles on the claimed positions) is reported.
//! S: the real `markdown_to_html(write d)` equals `refHtml d`, the independent reference renderer.
use crate::model::{Batch, Model};
use crate::report::Report;
use crate::ser::{fields, kind_name};
use crate::util::{diff_window, hex, show, unhex};
use crate::Cfg;
use comrak::nodes::AstNode;
use comrak::{markdown_to_html, parse_document, Arena, Options};
use std::panic::{catch_unwind, AssertUnwindSafe};

/// Options of the real run: the defaults plus the extensions the document's constructs need
/// (strikethrough, table, tasklist, footnotes); raw HTML stays in the default safe mode.
fn options() -> Options<'static> {
    let mut o = Options::default();
    o.extension.strikethrough = true;
    o.extension.table = true;
    o.extension.tasklist = true;
    o.extension.footnotes = true;
    o
}

/// `ser_tree` with every source position written as 0 (the stage-1 model leaves positions zero).
fn ser_nopos<'a>(root: &'a AstNode<'a>) -> String {
    let mut out = String::new();
    enum Ev<'a> {
        Open(&'a AstNode<'a>),
        Close,
    }
    let mut stack = vec![Ev::Open(root)];
    while let Some(ev) = stack.pop() {
        match ev {
            Ev::Close => out.push_str(" E"),
            Ev::Open(n) => {
                let ast = n.data.borrow();
                if !out.is_empty() {
                    out.push(' ');
                }
                out.push_str(&format!("N {} 0 0 0 0{}", kind_name(&ast.value), fields(&ast.value)));
                stack.push(Ev::Close);
                let kids: Vec<_> = n.children().collect();
                for k in kids.into_iter().rev() {
                    stack.push(Ev::Open(k));
                }
            }
        }
    }
    out
}

struct Real {
    tree: String,
    /// the same tree with the real source positions
    ptree: String,
    html: Vec<u8>,
}

fn real(md: &str) -> Result<Real, String> {
    let o = options();
    let tree = catch_unwind(AssertUnwindSafe(|| {
        let arena = Arena::new();
        let root = parse_document(&arena, md, &o);
        (ser_nopos(root), crate::ser::ser_tree(root))
    }))
    .map_err(|_| "PANIC in parse_document".to_string())?;
    let html = catch_unwind(AssertUnwindSafe(|| markdown_to_html(md, &o))).map_err(|_| "PANIC in markdown_to_html".to_string())?;
    Ok(Real { tree: tree.0, ptree: tree.1, html: html.into_bytes() })
}

/// Kinds (pre-order) and maximal depth of a wire tree.
fn wire_stats(w: &str) -> (Vec<String>, usize) {
    let mut kinds = vec![];
    let (mut d, mut maxd) = (0usize, 0usize);
    let toks: Vec<&str> = w.split(' ').collect();
    let mut i = 0;
    while i < toks.len() {
        if toks[i] == "N" && i + 1 < toks.len() {
            kinds.push(toks[i + 1].to_string());
            d += 1;
            maxd = maxd.max(d);
            i += 2;
        } else {
            if toks[i] == "E" {
                d = d.saturating_sub(1);
            }
            i += 1;
        }
    }
    (kinds, maxd)
}

/// Nodes of a wire tree in pre-order: (kind, [sl, sc, el, ec]).
fn wire_nodes(w: &str) -> Vec<(&str, [u64; 4])> {
    let toks: Vec<&str> = w.split(' ').collect();
    let mut out = vec![];
    let mut i = 0;
    while i < toks.len() {
        if toks[i] == "N" && i + 5 < toks.len() {
            let n = |k: usize| toks[i + 2 + k].parse::<u64>().unwrap_or(u64::MAX);
            out.push((toks[i + 1], [n(0), n(1), n(2), n(3)]));
            i += 6;
        } else {
            i += 1;
        }
    }
    out
}

/// The kinds whose positions comrak's documentation declares unreliable (RenderOptions::sourcepos).
fn pos_unreliable(kind: &str) -> bool {
    matches!(kind, "list" | "item" | "taskitem" | "description_list" | "description_item" | "description_term" | "description_details")
}

/// The wire tree with every position written as 0.
fn zero_pos(w: &str) -> String {
    let mut toks: Vec<String> = w.split(' ').map(|s| s.to_string()).collect();
    let mut i = 0;
    while i < toks.len() {
        if toks[i] == "N" && i + 5 < toks.len() {
            for k in 2..6 {
                toks[i + k] = "0".into();
            }
            i += 6;
        } else {
            i += 1;
        }
    }
    toks.join(" ")
}

/// First node of a reliable kind for which the model claims a position (start line not 0) that
/// differs from the real one. Both trees have the same shape (checked before).
fn pos_diff(real: &str, model: &str) -> Option<(usize, String)> {
    let a = wire_nodes(real);
    let b = wire_nodes(model);
    let mut claimed = 0usize;
    for (i, ((ka, pa), (kb, pb))) in a.iter().zip(b.iter()).enumerate() {
        if ka != kb {
            return Some((claimed, format!("node {}: kinds differ ({} / {})", i, ka, kb)));
        }
        if pos_unreliable(kb) || pb[0] == 0 {
            continue;
        }
        claimed += 1;
        if pa != pb {
            return Some((
                claimed,
                format!("node {} ({}): real {}:{}-{}:{} model {}:{}-{}:{}", i, ka, pa[0], pa[1], pa[2], pa[3], pb[0], pb[1], pb[2], pb[3]),
            ));
        }
    }
    if a.len() != b.len() {
        return Some((claimed, format!("node counts differ ({} / {})", a.len(), b.len())));
    }
    None
}

/// Number of nodes for which the model claims a position.
fn pos_claimed(model: &str) -> (u64, u64) {
    let b = wire_nodes(model);
    let claimed = b.iter().filter(|(k, p)| !pos_unreliable(k) && p[0] != 0).count() as u64;
    (claimed, b.len() as u64)
}

/// Describes the first differing token of two wire trees.
fn wire_diff(real: &str, model: &str) -> String {
    let a: Vec<&str> = real.split(' ').collect();
    let b: Vec<&str> = model.split(' ').collect();
    let mut i = 0;
    while i < a.len() && i < b.len() && a[i] == b[i] {
        i += 1;
    }
    let lo = i.saturating_sub(12);
    format!(
        "trees differ at token {}: real ...{} | model ...{}",
        i,
        a[lo..(i + 8).min(a.len())].join(" "),
        b[lo..(i + 8).min(b.len())].join(" ")
    )
}

/// Strips container prefixes (indentation, `>`, list markers) from the start of a line.
fn strip_prefixes(mut l: &[u8]) -> (&[u8], bool) {
    let mut saw_marker = false;
    loop {
        while let [b' ', r @ ..] = l {
            l = r;
        }
        match l {
            [b'>', r @ ..] => l = r,
            [b'-' | b'+' | b'*', b' ', r @ ..] => {
                l = r;
                saw_marker = true;
            }
            _ => {
                let d = l.iter().take_while(|c| c.is_ascii_digit()).count();
                if d > 0 && d < 10 && l.len() > d + 1 && (l[d] == b'.' || l[d] == b')') && l[d + 1] == b' ' {
                    l = &l[d + 2..];
                    saw_marker = true;
                } else {
                    return (l, saw_marker);
                }
            }
        }
    }
}

fn is_hr(l: &[u8]) -> bool {
    l.len() >= 3 && (l[0] == b'*' || l[0] == b'-' || l[0] == b'_') && l.iter().all(|c| *c == l[0])
}

fn is_delim_row(l: &[u8]) -> bool {
    l.first() == Some(&b'|') && l.contains(&b'-') && l.iter().all(|c| matches!(c, b'|' | b'-' | b':' | b' '))
}

/// Narrow syntactic class of a failing document (used to match known findings):
/// a thematic break inside a list, directly followed by a blank line and more content;
/// a table without body rows inside a list item, directly followed by more content.
fn sig_of(md: &[u8]) -> &'static str {
    let lines: Vec<&[u8]> = md.split(|c| *c == b'\n').collect();
    let mut in_list = false;
    for i in 0..lines.len() {
        let (rest, marker) = strip_prefixes(lines[i]);
        in_list |= marker || (in_list && lines[i].starts_with(b" "));
        if marker {
            // the item's text starts with an escaped / entity-spelled `[`, then ` `, `x` or `X`, then a closing bracket
            let open = [&b"\\["[..], &b"&#91;"[..], &b"&#x5B;"[..], &b"&#x5b;"[..]].iter().find(|p| rest.starts_with(p)).map(|p| p.len());
            if let Some(n) = open {
                if rest.len() > n && matches!(rest[n], b' ' | b'x' | b'X') {
                    let t = &rest[n + 1..];
                    if t.starts_with(b"\\]") || t.starts_with(b"]") || t.starts_with(b"&#93;") {
                        return "escaped-bracket-read-as-task-marker";
                    }
                }
            }
        }
        if in_list && i >= 1 && i + 1 < lines.len() && is_delim_row(rest) {
            let (h, _) = strip_prefixes(lines[i - 1]);
            let (n, _) = strip_prefixes(lines[i + 1]);
            if h.first() == Some(&b'|') && !lines[i + 1].is_empty() && !n.is_empty() && n.first() != Some(&b'|') {
                return "header-only-table-then-more-content-in-list-item";
            }
        }
        if in_list && is_hr(rest) && i + 2 < lines.len() {
            let (b, _) = strip_prefixes(lines[i + 1]);
            let (c, _) = strip_prefixes(lines[i + 2]);
            if b.is_empty() && !(c.is_empty() && lines[i + 2].is_empty()) {
                return "blank-line-after-thematic-break-in-list-item";
            }
        }
    }
    "canonical-document"
}

/// Directed probes for the listed finding (outside `Doc.ok`): the expected HTML follows the
/// specification's rule "a list is loose if any of its constituent list items are separated by
/// blank lines, or if any of its constituent list items directly contain two block-level elements
/// with a blank line between them".
/// Delimiter runs between punctuation and a symbol (`S*` categories count as punctuation for flanking).
const FLANKING_PROBES: &[(&str, &str)] = &[
    ("**Note:**`x` is set.\n", "<p><strong>Note:</strong><code>x</code> is set.</p>\n"),
    ("**Total:**$5\n", "<p><strong>Total:</strong>$5</p>\n"),
    ("*a!*+1 *b?*=2 *c)*|3\n", "<p><em>a!</em>+1 <em>b?</em>=2 <em>c)</em>|3</p>\n"),
    ("_a._=b\n", "<p><em>a.</em>=b</p>\n"),
    ("$*a*\u{a3}*b*\u{20ac}**c**\n", "<p>$<em>a</em>\u{a3}<em>b</em>\u{20ac}<strong>c</strong></p>\n"),
    ("a*\"b\"*c\n", "<p>a*&quot;b&quot;*c</p>\n"),
];

const FENCE_PROBES: &[(&str, &str)] = &[
    ("```\n~~~\n```\n", "<pre><code>~~~\n</code></pre>\n"),
    ("~~~ markdown\n```\nlet x = 1;\n```\n~~~\n\nafter\n", "<pre><code class=\"language-markdown\">```\nlet x = 1;\n```\n</code></pre>\n<p>after</p>\n"),
    ("````\n```\n~~~~~\n````\n", "<pre><code>```\n~~~~~\n</code></pre>\n"),
    ("- ```\n  ~~~\n  ```\n", "<ul>\n<li>\n<pre><code>~~~\n</code></pre>\n</li>\n</ul>\n"),
    ("> ~~~\n> ````\n> ~~~\n", "<blockquote>\n<pre><code>````\n</code></pre>\n</blockquote>\n"),
];

const HR_PROBES: &[(&str, &str)] = &[
    ("- ___\n\n- a\n", "<ul>\n<li>\n<hr />\n</li>\n<li>\n<p>a</p>\n</li>\n</ul>\n"),
    ("1. ***\n\n   b\n", "<ol>\n<li>\n<hr />\n<p>b</p>\n</li>\n</ol>\n"),
    ("- a\n  ___\n\n- b\n", "<ul>\n<li>\n<p>a</p>\n<hr />\n</li>\n<li>\n<p>b</p>\n</li>\n</ul>\n"),
];

/// Directed probes for the second listed finding (outside `Doc.ok`): no blank line anywhere, so
/// the lists are tight by the rule quoted above.
const TBL_PROBES: &[(&str, &str)] = &[
    (
        "- | a |\n  | - |\n- b\n",
        "<ul>\n<li>\n<table>\n<thead>\n<tr>\n<th>a</th>\n</tr>\n</thead>\n</table>\n</li>\n<li>b</li>\n</ul>\n",
    ),
    (
        "1. x\n   - | a |\n     | :-: |\n2. y\n",
        "<ol>\n<li>x\n<ul>\n<li>\n<table>\n<thead>\n<tr>\n<th align=\"center\">a</th>\n</tr>\n</thead>\n</table>\n</li>\n</ul>\n</li>\n<li>y</li>\n</ol>\n",
    ),
];

/// Directed probes for the third listed finding (outside `Doc.ok`): CommonMark 2.4 / 6.1, a
/// backslash-escaped or entity-spelled bracket is a literal character, not the task marker of the
/// GFM task list extension.
const TASK_PROBES: &[(&str, &str)] = &[
    ("- \\[x\\] a\n", "<ul>\n<li>[x] a</li>\n</ul>\n"),
    ("1. &#91; ] b\n", "<ol>\n<li>[ ] b</li>\n</ol>\n"),
];

struct Parsed {
    ok: bool,
    md: Vec<u8>,
    html: Vec<u8>,
    tree: String,
    /// `toTreeP d`: the same tree with the positions the canonical model claims (empty if not sent)
    ptree: String,
    /// `Doc.posOk d`: the C11/C12 oracles of Comrak/Sourcepos.lean hold for the claimed positions
    pos_ok: Option<bool>,
}

fn parse_resp(resp: &str) -> Option<Parsed> {
    let mut it = resp.splitn(4, ' ');
    let ok = it.next()? == "1";
    let md = unhex(it.next()?)?;
    let html = unhex(it.next()?)?;
    let rest = it.next()?;
    let (tree, ptree, pos_ok) = match rest.split_once(" | ") {
        Some((a, b)) => match b.split_once(" | ") {
            Some((p, f)) => (a.to_string(), p.to_string(), Some(f.trim() == "1")),
            None => (a.to_string(), b.to_string(), None),
        },
        None => (rest.to_string(), String::new(), None),
    };
    Some(Parsed { ok, md, html, tree, ptree, pos_ok })
}

/// Evaluates K and S for one generated document. Returns (k_failed, s_failed).
fn eval(p: &Parsed, rep: &mut Report, record: bool, label: &str) -> (bool, bool) {
    let md = match std::str::from_utf8(&p.md) {
        Ok(s) => s,
        Err(_) => {
            if record {
                rep.disagree("writer-utf8", format!("casek {} {}", hex(&p.md), p.tree), "the canonical writer produced invalid UTF-8".into());
            }
            return (true, false);
        }
    };
    let s_input = format!("case {} {}", hex(&p.md), hex(&p.html));
    let r = match real(md) {
        Ok(r) => r,
        Err(e) => {
            if record {
                rep.s_evals += 1;
                rep.fail("canon-total", "panic", s_input, format!("{} on {:?} ({})", e, show(&p.md), label));
            }
            return (false, true);
        }
    };
    let mut kf = r.tree != p.tree;
    let sf = r.html != p.html;
    // positions: only when the trees agree position-free
    if !kf && !p.ptree.is_empty() {
        let pk = if zero_pos(&p.ptree) != p.tree {
            Some("toTreeP d is not toTree d with positions filled in".to_string())
        } else {
            pos_diff(&r.ptree, &p.ptree).map(|x| x.1)
        };
        if record {
            rep.k_evals += 1;
            let (c, n) = pos_claimed(&p.ptree);
            rep.add("positions-compared", c);
            rep.add("positions-not-claimed", n - c);
        }
        if p.pos_ok == Some(false) {
            kf = true;
            if record {
                rep.disagree(
                    "positions-oracle",
                    format!("casep {} {}", hex(&p.md), p.ptree),
                    format!("the positions the model claims fail the C11/C12 oracles (Doc.posOk = false) on {:?} ({})", show(&p.md), label),
                );
            }
        } else if p.pos_ok == Some(true) && record {
            rep.count("positions-oracles-hold-on-model-tree");
        }
        if let Some(d) = pk {
            kf = true;
            if record {
                rep.disagree(
                    "positions-vs-toTreeP",
                    format!("casep {} {}", hex(&p.md), p.ptree),
                    format!("{} on {:?} ({})", d, show(&p.md), label),
                );
            }
        }
    }
    if record {
        rep.k_evals += 1;
        rep.s_evals += 1;
        if kf {
            rep.disagree(
                "parse-vs-toTree",
                format!("casek {} {}", hex(&p.md), p.tree),
                format!("{} on {:?} ({})", wire_diff(&r.tree, &p.tree), show(&p.md), label),
            );
        }
        if sf {
            rep.fail(
                "html-vs-reference",
                sig_of(&p.md),
                s_input,
                format!("markdown_to_html differs from the reference rendering on {:?} ({}): {}", show(&p.md), label, diff_window(&r.html, &p.html)),
            );
        }
    }
    (kf, sf)
}

pub fn run(cfg: &Cfg, rep: &mut Report) {
    let m = Model::from_env();
    rep.rule = "documents generated inside the Lean driver from (seed, size) over the canonical class of Comrak/Canon (paragraph, ATX and setext heading, thematic break, fenced and indented code, block quote, tight/loose bullet and ordered lists with task items, GFM tables with alignments, HTML blocks of start condition 6, footnote definitions written in any order at the end; text with escapes and character references, code spans, emphasis, strong, strikethrough, inline and reference links with definitions before/after use, label case variants and shadowed duplicate definitions, images, autolinks, hard and soft breaks, footnote references), each satisfying Doc.ok; the real run uses the default options plus the extensions strikethrough, table, tasklist, footnotes (HTML blocks in the default safe mode); the real parser's tree is compared position-free with toTree d and, for the position-reliable kinds, position by position with toTreeP d; the real HTML with refHtml d. distinct_nontrivial counts distinct node-kind sequences of the generated trees".into();
    let n: u64 = if cfg.tier_thorough { 200_000 } else if cfg.full { 30_000 } else { 4_000 };
    let base = cfg.seed.wrapping_mul(1_000_003) % 1_000_000_007;
    let mut failing: Vec<(u64, u64)> = vec![];
    let mut done = 0u64;
    while done < n {
        let chunk = 4000.min(n - done);
        let reqs: Vec<(u64, u64)> = (done..done + chunk).map(|i| (base + i, i % 16)).collect();
        let resps = m.batch(&reqs.iter().map(|(s, z)| format!("canon2 {} {}", s, z)).collect::<Vec<_>>());
        for ((seed, size), resp) in reqs.iter().zip(resps) {
            let body = match crate::model::ok(&resp) {
                Ok(b) => b,
                Err(e) => {
                    rep.disagree("driver", format!("canon2 {} {}", seed, size), e);
                    continue;
                }
            };
            let p = match parse_resp(body) {
                Some(p) => p,
                None => {
                    rep.disagree("driver", format!("canon2 {} {}", seed, size), "unparsable response".into());
                    continue;
                }
            };
            if !p.ok {
                // the generator builds documents that satisfy Doc.ok by construction; anything else is a driver defect
                rep.disagree("generator-not-ok", format!("canon2 {} {}", seed, size), "generated document does not satisfy Doc.ok".into());
                continue;
            }
            let (kinds, depth) = wire_stats(&p.tree);
            rep.count(&format!("size-{:02}", size));
            rep.count(&format!("depth-{:02}", depth));
            rep.count(&format!("md-bytes-{}", match p.md.len() { 0..=63 => "0-63", 64..=255 => "64-255", 256..=1023 => "256-1023", _ => "1024+" }));
            rep.add("nodes", kinds.len() as u64);
            for k in &kinds {
                rep.count(&format!("kind-{}", k));
            }
            if p.tree.contains(" list 0 0 2 1 0 ") || p.tree.contains("N list 0 0 0 0 0 ") {
                rep.count("list-bullet");
            }
            if p.tree.contains("N list 0 0 0 0 1 ") {
                rep.count("list-ordered");
            }
            if kinds.len() > 2 {
                rep.nontrivial(&kinds);
            }
            {
                // constructs the tree does not show: reference definitions (leading / trailing), setext, indented code
                let lines: Vec<&[u8]> = p.md.split(|c| *c == b'\n').collect();
                let is_def = |l: &[u8]| l.first() == Some(&b'[') && l.windows(3).any(|w| w == b"]: ");
                let first_content = lines.iter().position(|l| !l.is_empty() && !is_def(l));
                let ndef = lines.iter().filter(|l| is_def(l)).count();
                if ndef > 0 {
                    rep.count("docs-with-reference-definitions");
                    rep.add("reference-definitions", ndef as u64);
                    let lead = lines.iter().take(first_content.unwrap_or(lines.len())).filter(|l| is_def(l)).count();
                    rep.add("reference-definitions-before-use", lead as u64);
                    rep.add("reference-definitions-after-use", (ndef - lead) as u64);
                }
                if p.tree.contains("N heading 0 0 0 0 1 1") || p.tree.contains("N heading 0 0 0 0 2 1") {
                    rep.count("docs-with-setext-heading");
                }
                if p.tree.contains("N code_block 0 0 0 0 0 0 0 0 - ") {
                    rep.count("docs-with-indented-code");
                }
                if p.tree.contains(" 1 0 N item") {
                    rep.count("docs-with-tight-list");
                }
                // tables: documents, header-only tables, columns per alignment, body rows, empty cells
                let toks: Vec<&str> = p.tree.split(' ').collect();
                let mut has_table = false;
                for (i, t) in toks.iter().enumerate() {
                    if *t == "table" && i >= 1 && toks[i - 1] == "N" && i + 8 < toks.len() {
                        has_table = true;
                        rep.count("tables");
                        if toks[i + 6] == "0" {
                            rep.count("tables-header-only");
                        }
                        rep.add("table-body-rows", toks[i + 6].parse().unwrap_or(0));
                        for c in toks[i + 8].chars() {
                            rep.count(match c {
                                'l' => "table-columns-left",
                                'r' => "table-columns-right",
                                'c' => "table-columns-center",
                                _ => "table-columns-unaligned",
                            });
                        }
                    }
                    if *t == "table_cell" && i + 5 < toks.len() && toks[i + 5] == "E" {
                        rep.count("table-cells-empty");
                    }
                }
                if has_table {
                    rep.count("docs-with-table");
                }
                // task items, HTML blocks, footnotes
                let (mut tasks, mut htmls, mut fdefs, mut frefs) = (0u64, 0u64, 0u64, 0u64);
                for (i, t) in toks.iter().enumerate() {
                    if i == 0 || toks[i - 1] != "N" {
                        continue;
                    }
                    match *t {
                        "taskitem" => {
                            tasks += 1;
                            rep.count(if toks.get(i + 5) == Some(&"1") { "task-items-checked" } else { "task-items-unchecked" });
                        }
                        "html_block" => htmls += 1,
                        "footnote_definition" => {
                            fdefs += 1;
                            if toks.get(i + 6).and_then(|x| x.parse::<u64>().ok()).unwrap_or(0) > 1 {
                                rep.count("footnotes-referenced-more-than-once");
                            }
                        }
                        "footnote_reference" => frefs += 1,
                        _ => {}
                    }
                }
                if tasks > 0 {
                    rep.count("docs-with-task-items");
                }
                if htmls > 0 {
                    rep.count("docs-with-html-block");
                }
                if fdefs > 0 {
                    rep.count("docs-with-footnotes");
                    rep.add("footnote-definitions", fdefs);
                    rep.add("footnote-references", frefs);
                    let written = lines.iter().filter(|l| l.starts_with(b"[^")).count() as u64;
                    if written > fdefs {
                        rep.add("footnote-definitions-unreferenced", written - fdefs);
                    }
                    // is the written order of the definitions another one than the order of first reference?
                    let names_written: Vec<&[u8]> = lines.iter().filter(|l| l.starts_with(b"[^")).map(|l| &l[2..l.iter().position(|c| *c == b']').unwrap_or(2)]).collect();
                    let mut names_tree: Vec<Vec<u8>> = vec![];
                    for (i, t) in toks.iter().enumerate() {
                        if *t == "footnote_definition" && i >= 1 && toks[i - 1] == "N" {
                            names_tree.push(unhex(toks[i + 5]).unwrap_or_default());
                        }
                    }
                    let same = names_written.iter().filter(|n| names_tree.iter().any(|m| m == *n)).map(|n| n.to_vec()).collect::<Vec<_>>() == names_tree;
                    if !same {
                        rep.count("docs-with-footnote-definitions-written-in-another-order");
                    }
                }
            }
            if rep.samples.len() < 4 && kinds.len() > 8 {
                rep.sample(format!("canon2 {} {}: {:?}", seed, size, show(&p.md)));
            }
            let (kf, sf) = eval(&p, rep, true, &format!("canon2 {} {}", seed, size));
            if (kf || sf) && failing.len() < 3 {
                failing.push((*seed, *size));
            }
        }
        done += chunk;
    }
    // the listed finding, re-observed on every run (S only: these documents are outside Doc.ok)
    for (md, html) in HR_PROBES.iter().chain(TBL_PROBES.iter()).chain(TASK_PROBES.iter()) {
        rep.count("directed-finding-probe");
        rep.s_evals += 1;
        match real(md) {
            Ok(r) if r.html == html.as_bytes() => {}
            Ok(r) => rep.fail(
                "html-vs-reference",
                sig_of(md.as_bytes()),
                format!("case {} {}", hex(md.as_bytes()), hex(html.as_bytes())),
                format!("markdown_to_html differs from the rendering the specification prescribes on {:?}: {}", md, diff_window(&r.html, html.as_bytes())),
            ),
            Err(e) => rep.fail("canon-total", "panic", format!("case {} {}", hex(md.as_bytes()), hex(html.as_bytes())), e),
        }
    }
    // every named character reference of HTML5 (table copied from an independent source), in text and in a title
    {
        let table = std::fs::read_to_string("/verif/audit/html5_entities.tsv").unwrap_or_default();
        let esc = |s: &str| s.replace('&', "&amp;").replace('<', "&lt;").replace('>', "&gt;").replace('"', "&quot;");
        let mut n = 0u64;
        for line in table.lines() {
            if line.starts_with('#') || line.is_empty() {
                continue;
            }
            let mut it = line.split('\t');
            let (name, cps) = match (it.next(), it.next()) {
                (Some(a), Some(b)) => (a, b),
                _ => continue,
            };
            let val: String = cps.split(' ').filter_map(|h| u32::from_str_radix(h, 16).ok()).filter_map(char::from_u32).collect();
            // a reference that decodes to white space or to a character that starts a construct is set between letters
            let md = format!("a&{};b [t](/u \"x&{};y\")\n", name, name);
            let html = format!("<p>a{}b <a href=\"/u\" title=\"x{}y\">t</a></p>\n", esc(&val), esc(&val));
            n += 1;
            rep.s_evals += 1;
            match real(&md) {
                Ok(r) if r.html == html.as_bytes() => {}
                Ok(r) => rep.fail(
                    "html-vs-reference",
                    "named-character-reference",
                    format!("case {} {}", hex(md.as_bytes()), hex(html.as_bytes())),
                    format!("&{}; is not decoded to U+{}: {}", name, cps, diff_window(&r.html, html.as_bytes())),
                ),
                Err(e) => rep.fail("canon-total", "panic", format!("case {} {}", hex(md.as_bytes()), hex(html.as_bytes())), e),
            }
        }
        rep.add("named-character-references", n);
        if n < 2000 {
            rep.notes.push("the entity table /verif/audit/html5_entities.tsv could not be read".into());
        }
    }
    // code fences: a line of the other fence character, or a shorter run of the same one, is content
    for (md, html) in FENCE_PROBES.iter().chain(FLANKING_PROBES.iter()) {
        rep.count("fence-probe");
        rep.s_evals += 1;
        match real(md) {
            Ok(r) if r.html == html.as_bytes() => {}
            Ok(r) => rep.fail("html-vs-reference", if md.contains("```") || md.contains("~~~\n") { "fenced-code-content-line-looks-like-a-fence" } else { "delimiter-run-between-punctuation-and-symbol" }, format!("case {} {}", hex(md.as_bytes()), hex(html.as_bytes())), format!("{:?}: {}", md, diff_window(&r.html, html.as_bytes()))),
            Err(e) => rep.fail("canon-total", "panic", format!("case {} {}", hex(md.as_bytes()), hex(html.as_bytes())), e),
        }
    }
    // a definition used many times: every use resolves while the total expansion stays below the cap
    // (100 kB or the document size, whichever is larger); written and rendered here, independently
    for (url_len, uses, after) in [(70usize, 4usize, false), (200, 30, true), (500, 100, false), (2000, 40, true), (30, 900, false)] {
        let url = format!("/p/{}", "a".repeat(url_len));
        let def = format!("[Docs]: {} \"T t\"\n", url);
        let mut md = String::new();
        let mut html = String::new();
        if !after {
            md.push_str(&def);
            md.push('\n');
        }
        for i in 0..uses {
            let (src, text) = match i % 3 {
                0 => (format!("[use {}][docs]", i), format!("use {}", i)),
                1 => ("[DOCS][]".to_string(), "DOCS".to_string()),
                _ => ("[docs]".to_string(), "docs".to_string()),
            };
            md.push_str(&format!("see {} here\n\n", src));
            html.push_str(&format!("<p>see <a href=\"{}\" title=\"T t\">{}</a> here</p>\n", url, text));
        }
        if after {
            md.push_str(&def);
        }
        rep.count("reference-uses-probe");
        rep.s_evals += 1;
        match real(&md) {
            Ok(r) if r.html == html.as_bytes() => {}
            Ok(r) => rep.fail(
                "html-vs-reference",
                "definition-used-many-times",
                format!("case {} {}", hex(md.as_bytes()), hex(html.as_bytes())),
                format!("{} uses of one definition ({} bytes of destination, total below the expansion cap): {}", uses, url.len(), diff_window(&r.html, html.as_bytes())),
            ),
            Err(e) => rep.fail("canon-total", "panic", format!("case {} {}", hex(md.as_bytes()), hex(html.as_bytes())), e),
        }
    }
    // shrink: smaller sizes of the same seed are different, smaller documents; report the smallest failing one
    for (seed, size) in failing {
        let reqs: Vec<String> = (0..size).map(|z| format!("canon2 {} {}", seed, z)).collect();
        let resps = m.batch(&reqs);
        for (z, resp) in resps.iter().enumerate() {
            if let Some(p) = crate::model::ok(resp).ok().and_then(parse_resp) {
                if !p.ok {
                    continue;
                }
                let (kf, sf) = eval(&p, rep, false, "");
                if kf || sf {
                    // the smaller document goes first: the runner writes the first case of a class as the replay
                    let mut tmp = Report::new("C03");
                    eval(&p, &mut tmp, true, &format!("shrunk from canon2 {} {} to size {}", seed, size, z));
                    for c in tmp.s_fail.into_iter().rev() {
                        rep.s_fail.insert(0, c);
                    }
                    for c in tmp.k_disagree.into_iter().rev() {
                        rep.k_disagree.insert(0, c);
                    }
                    break;
                }
            }
        }
    }
}

/// The canonical documents of `cm_fixed_point_canon_partial` (driver `canoncm <seed> <size>`): the model
/// says `renderCm {} d.toTree = d.write` on them. K: the real parser returns `d.toTree` for `d.write`;
/// S: the real writer returns `d.write` for that tree (so writing is idempotent on the class, on the real code).
pub fn run_canoncm_one(rep: &mut Report, seed: u64) {
    run_canoncm_range(rep, seed, seed)
}

pub fn run_canoncm(rep: &mut Report, seeds: u64) {
    run_canoncm_range(rep, 1, seeds)
}

fn run_canoncm_range(rep: &mut Report, lo: u64, hi: u64) {
    let m = Model::from_env();
    let mut reqs: Vec<String> = vec![];
    for seed in lo..=hi {
        for size in [3usize, 9, 14] {
            reqs.push(format!("canoncm {} {}", seed, size));
        }
    }
    let resps = m.batch(&reqs);
    for (req, resp) in reqs.iter().zip(resps.iter()) {
        let body = match crate::model::ok(resp) {
            Ok(b) => b,
            Err(e) => {
                rep.disagree("driver", req.clone(), e);
                continue;
            }
        };
        let mut it = body.splitn(4, ' ');
        let (hyp, eq, md, tree) = match (it.next(), it.next(), it.next().and_then(unhex), it.next()) {
            (Some(h), Some(e), Some(md), Some(t)) => (h == "1", e == "1", md, t.to_string()),
            _ => {
                rep.disagree("driver", req.clone(), "unparsable canoncm answer".into());
                continue;
            }
        };
        rep.count("canoncm-documents");
        if !hyp {
            rep.count("canoncm-outside-hypotheses");
            continue;
        }
        rep.k_evals += 1;
        if !eq {
            rep.disagree("cm-fixed-point-model", req.clone(), "the driver evaluates renderCm {} d.toTree != d.write on a document that satisfies the hypotheses of cm_fixed_point_canon_partial".into());
        }
        let mds = match String::from_utf8(md.clone()) {
            Ok(s) => s,
            Err(_) => continue,
        };
        let mut o = Options::default();
        o.extension.strikethrough = true;
        o.extension.tasklist = true;
        let r = catch_unwind(AssertUnwindSafe(|| {
            let arena = Arena::new();
            let root = parse_document(&arena, &mds, &o);
            let mut cm = Vec::new();
            comrak::format_commonmark(root, &o, &mut cm).unwrap();
            (ser_nopos(root), cm)
        }));
        match r {
            Err(_) => rep.fail("canon-total", "panic", req.clone(), format!("parse or format_commonmark panics on {:?}", show(&md))),
            Ok((real_tree, cm)) => {
                rep.k_evals += 1;
                if real_tree != tree {
                    rep.disagree("canon-tree", req.clone(), format!("parse_document(write d) != toTree d on {:?}: {}", show(&md), wire_diff(&real_tree, &tree)));
                }
                rep.s_evals += 1;
                if cm != md {
                    rep.fail("cm-fixed-point-canon", "canonical-document", format!("{} {}", req, hex(&md)), format!("format_commonmark(parse x) != x for the canonical document x = {:?}: {}", show(&md), diff_window(&cm, &md)));
                }
            }
        }
    }
}

pub fn replay(kind: &str, input: &str) -> Result<Option<String>, String> {
    let mut rep = Report::new("C03");
    let toks: Vec<&str> = input.splitn(3, ' ').collect();
    let p = match toks.as_slice() {
        ["case", md, html] => {
            let md = unhex(md).ok_or("bad hex")?;
            let html = unhex(html).ok_or("bad hex")?;
            let mdstr = String::from_utf8(md.clone()).map_err(|_| "bad utf8")?;
            // the tree is not part of an S replay: take the real one so that only S can fail
            let tree = real(&mdstr).map(|r| r.tree).unwrap_or_default();
            Parsed { ok: true, md, html, tree, ptree: String::new(), pos_ok: None }
        }
        ["casep", md, ptree] => {
            let md = unhex(md).ok_or("bad hex")?;
            let mdstr = String::from_utf8(md.clone()).map_err(|_| "bad utf8")?;
            let r = real(&mdstr)?;
            Parsed { ok: true, md, html: r.html, tree: r.tree, ptree: ptree.to_string(), pos_ok: None }
        }
        ["casek", md, tree] => {
            let md = unhex(md).ok_or("bad hex")?;
            let mdstr = String::from_utf8(md.clone()).map_err(|_| "bad utf8")?;
            let html = real(&mdstr).map(|r| r.html).unwrap_or_default();
            Parsed { ok: true, md, html, tree: tree.to_string(), ptree: String::new(), pos_ok: None }
        }
        ["dumpp", md] => {
            // development aid: the real tree with positions, one node per line
            let md = unhex(md).ok_or("bad hex")?;
            let mdstr = String::from_utf8(md).map_err(|_| "bad utf8")?;
            let o = options();
            let arena = Arena::new();
            let root = parse_document(&arena, &mdstr, &o);
            return Ok(Some(format!("TREEP {}", crate::ser::ser_tree(root))));
        }
        ["dump", md] => {
            // development aid: prints the real tree and HTML of a document
            let md = unhex(md).ok_or("bad hex")?;
            let mdstr = String::from_utf8(md).map_err(|_| "bad utf8")?;
            let r = real(&mdstr)?;
            return Ok(Some(format!("TREE {} HTML {:?}", r.tree, String::from_utf8_lossy(&r.html))));
        }
        [cmd @ ("canon" | "canon2"), seed, size] => {
            let m = Model::from_env();
            let r = m.batch(&[format!("{} {} {}", cmd, seed, size)]);
            let body = crate::model::ok(&r[0])?.to_string();
            parse_resp(&body).ok_or("unparsable driver response")?
        }
        _ => return Err("bad replay input".into()),
    };
    eval(&p, &mut rep, true, "replay");
    for c in rep.s_fail.iter().chain(rep.k_disagree.iter()) {
        if kind.is_empty() || c.kind == kind {
            return Ok(Some(format!("{}: {}", c.kind, c.detail)));
        }
    }
    Ok(None)
}

#[allow(dead_code)]
fn _unused(_: Batch) {}
