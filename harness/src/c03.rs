//! C03: canonical documents parse to exactly the structure they spell.
//! The Lean driver generates a `Doc` (Comrak/Canon) from (seed, size) and answers
//! `<Doc.ok> <hex write d> <hex refHtml d> <wire of toTree d>`: the writer, the tree and the
//! reference renderer executed are the definitions the theorems are about.
//! K: the real `parse_document(write d)`, serialised position-free, equals `toTree d`
//!    (kinds, payloads, nesting; every payload field is compared, none is normalised:
//!    the canonical model determines `marker_offset` = 0, `padding` = marker width + 1,
//!    `fence_offset` = 0, per-item `start`, `tight` on the list node only).
//! S: the real `markdown_to_html(write d)` equals `refHtml d`, the independent reference renderer.
use crate::model::{Batch, Model};
use crate::report::Report;
use crate::ser::{fields, kind_name};
use crate::util::{diff_window, hex, show, unhex};
use crate::Cfg;
use comrak::nodes::AstNode;
use comrak::{markdown_to_html, parse_document, Arena, Options};
use std::panic::{catch_unwind, AssertUnwindSafe};

/// Options of the real run: the defaults plus the extensions the document's constructs need
/// (strikethrough, for `~~..~~`).
fn options() -> Options<'static> {
    let mut o = Options::default();
    o.extension.strikethrough = true;
    o
}

/// `ser_tree` with every source position written as 0 (the stage-1 model leaves positions zero).
fn ser_nopos<'a>(root: &'a AstNode<'a>) -> String {
    let mut out = String::new();
    enum Ev<'a> {
        Open(&'a AstNode<'a>),
        Close,
    }
    let mut stack = vec![Ev::Open(root)];
    while let Some(ev) = stack.pop() {
        match ev {
            Ev::Close => out.push_str(" E"),
            Ev::Open(n) => {
                let ast = n.data.borrow();
                if !out.is_empty() {
                    out.push(' ');
                }
                out.push_str(&format!("N {} 0 0 0 0{}", kind_name(&ast.value), fields(&ast.value)));
                stack.push(Ev::Close);
                let kids: Vec<_> = n.children().collect();
                for k in kids.into_iter().rev() {
                    stack.push(Ev::Open(k));
                }
            }
        }
    }
    out
}

struct Real {
    tree: String,
    html: Vec<u8>,
}

fn real(md: &str) -> Result<Real, String> {
    let o = options();
    let tree = catch_unwind(AssertUnwindSafe(|| {
        let arena = Arena::new();
        let root = parse_document(&arena, md, &o);
        ser_nopos(root)
    }))
    .map_err(|_| "PANIC in parse_document".to_string())?;
    let html = catch_unwind(AssertUnwindSafe(|| markdown_to_html(md, &o))).map_err(|_| "PANIC in markdown_to_html".to_string())?;
    Ok(Real { tree, html: html.into_bytes() })
}

/// Kinds (pre-order) and maximal depth of a wire tree.
fn wire_stats(w: &str) -> (Vec<String>, usize) {
    let mut kinds = vec![];
    let (mut d, mut maxd) = (0usize, 0usize);
    let toks: Vec<&str> = w.split(' ').collect();
    let mut i = 0;
    while i < toks.len() {
        if toks[i] == "N" && i + 1 < toks.len() {
            kinds.push(toks[i + 1].to_string());
            d += 1;
            maxd = maxd.max(d);
            i += 2;
        } else {
            if toks[i] == "E" {
                d = d.saturating_sub(1);
            }
            i += 1;
        }
    }
    (kinds, maxd)
}

/// Describes the first differing token of two wire trees.
fn wire_diff(real: &str, model: &str) -> String {
    let a: Vec<&str> = real.split(' ').collect();
    let b: Vec<&str> = model.split(' ').collect();
    let mut i = 0;
    while i < a.len() && i < b.len() && a[i] == b[i] {
        i += 1;
    }
    let lo = i.saturating_sub(12);
    format!(
        "trees differ at token {}: real ...{} | model ...{}",
        i,
        a[lo..(i + 8).min(a.len())].join(" "),
        b[lo..(i + 8).min(b.len())].join(" ")
    )
}

/// Strips container prefixes (indentation, `>`, list markers) from the start of a line.
fn strip_prefixes(mut l: &[u8]) -> (&[u8], bool) {
    let mut saw_marker = false;
    loop {
        while let [b' ', r @ ..] = l {
            l = r;
        }
        match l {
            [b'>', r @ ..] => l = r,
            [b'-' | b'+' | b'*', b' ', r @ ..] => {
                l = r;
                saw_marker = true;
            }
            _ => {
                let d = l.iter().take_while(|c| c.is_ascii_digit()).count();
                if d > 0 && d < 10 && l.len() > d + 1 && (l[d] == b'.' || l[d] == b')') && l[d + 1] == b' ' {
                    l = &l[d + 2..];
                    saw_marker = true;
                } else {
                    return (l, saw_marker);
                }
            }
        }
    }
}

fn is_hr(l: &[u8]) -> bool {
    l.len() >= 3 && (l[0] == b'*' || l[0] == b'-' || l[0] == b'_') && l.iter().all(|c| *c == l[0])
}

/// Narrow syntactic class of a failing document (used to match known findings):
/// a thematic break inside a list, directly followed by a blank line and more content.
fn sig_of(md: &[u8]) -> &'static str {
    let lines: Vec<&[u8]> = md.split(|c| *c == b'\n').collect();
    let mut in_list = false;
    for i in 0..lines.len() {
        let (rest, marker) = strip_prefixes(lines[i]);
        in_list |= marker || (in_list && lines[i].starts_with(b" "));
        if in_list && is_hr(rest) && i + 2 < lines.len() {
            let (b, _) = strip_prefixes(lines[i + 1]);
            let (c, _) = strip_prefixes(lines[i + 2]);
            if b.is_empty() && !(c.is_empty() && lines[i + 2].is_empty()) {
                return "blank-line-after-thematic-break-in-list-item";
            }
        }
    }
    "canonical-document"
}

/// Directed probes for the listed finding (outside `Doc.ok`): the expected HTML follows the
/// specification's rule "a list is loose if any of its constituent list items are separated by
/// blank lines, or if any of its constituent list items directly contain two block-level elements
/// with a blank line between them".
const HR_PROBES: &[(&str, &str)] = &[
    ("- ___\n\n- a\n", "<ul>\n<li>\n<hr />\n</li>\n<li>\n<p>a</p>\n</li>\n</ul>\n"),
    ("1. ***\n\n   b\n", "<ol>\n<li>\n<hr />\n<p>b</p>\n</li>\n</ol>\n"),
    ("- a\n  ___\n\n- b\n", "<ul>\n<li>\n<p>a</p>\n<hr />\n</li>\n<li>\n<p>b</p>\n</li>\n</ul>\n"),
];

struct Parsed {
    ok: bool,
    md: Vec<u8>,
    html: Vec<u8>,
    tree: String,
}

fn parse_resp(resp: &str) -> Option<Parsed> {
    let mut it = resp.splitn(4, ' ');
    let ok = it.next()? == "1";
    let md = unhex(it.next()?)?;
    let html = unhex(it.next()?)?;
    let tree = it.next()?.to_string();
    Some(Parsed { ok, md, html, tree })
}

/// Evaluates K and S for one generated document. Returns (k_failed, s_failed).
fn eval(p: &Parsed, rep: &mut Report, record: bool, label: &str) -> (bool, bool) {
    let md = match std::str::from_utf8(&p.md) {
        Ok(s) => s,
        Err(_) => {
            if record {
                rep.disagree("writer-utf8", format!("casek {} {}", hex(&p.md), p.tree), "the canonical writer produced invalid UTF-8".into());
            }
            return (true, false);
        }
    };
    let s_input = format!("case {} {}", hex(&p.md), hex(&p.html));
    let r = match real(md) {
        Ok(r) => r,
        Err(e) => {
            if record {
                rep.s_evals += 1;
                rep.fail("canon-total", "panic", s_input, format!("{} on {:?} ({})", e, show(&p.md), label));
            }
            return (false, true);
        }
    };
    let kf = r.tree != p.tree;
    let sf = r.html != p.html;
    if record {
        rep.k_evals += 1;
        rep.s_evals += 1;
        if kf {
            rep.disagree(
                "parse-vs-toTree",
                format!("casek {} {}", hex(&p.md), p.tree),
                format!("{} on {:?} ({})", wire_diff(&r.tree, &p.tree), show(&p.md), label),
            );
        }
        if sf {
            rep.fail(
                "html-vs-reference",
                sig_of(&p.md),
                s_input,
                format!("markdown_to_html differs from the reference rendering on {:?} ({}): {}", show(&p.md), label, diff_window(&r.html, &p.html)),
            );
        }
    }
    (kf, sf)
}

pub fn run(cfg: &Cfg, rep: &mut Report) {
    let m = Model::from_env();
    rep.rule = "documents generated inside the Lean driver from (seed, size) over the canonical class of Comrak/Canon (paragraph, ATX and setext heading, thematic break, fenced and indented code, block quote, tight/loose bullet and ordered lists; text with escapes and character references, code spans, emphasis, strong, strikethrough, inline and reference links with definitions before/after use, label case variants and shadowed duplicate definitions, images, autolinks, hard and soft breaks), each satisfying Doc.ok; the real parser's tree is compared position-free with toTree d, the real HTML with refHtml d. distinct_nontrivial counts distinct node-kind sequences of the generated trees".into();
    let n: u64 = if cfg.tier_thorough { 200_000 } else if cfg.full { 30_000 } else { 4_000 };
    let base = cfg.seed.wrapping_mul(1_000_003) % 1_000_000_007;
    let mut failing: Vec<(u64, u64)> = vec![];
    let mut done = 0u64;
    while done < n {
        let chunk = 4000.min(n - done);
        let reqs: Vec<(u64, u64)> = (done..done + chunk).map(|i| (base + i, i % 16)).collect();
        let resps = m.batch(&reqs.iter().map(|(s, z)| format!("canon {} {}", s, z)).collect::<Vec<_>>());
        for ((seed, size), resp) in reqs.iter().zip(resps) {
            let body = match crate::model::ok(&resp) {
                Ok(b) => b,
                Err(e) => {
                    rep.disagree("driver", format!("canon {} {}", seed, size), e);
                    continue;
                }
            };
            let p = match parse_resp(body) {
                Some(p) => p,
                None => {
                    rep.disagree("driver", format!("canon {} {}", seed, size), "unparsable response".into());
                    continue;
                }
            };
            if !p.ok {
                // the generator builds documents that satisfy Doc.ok by construction; anything else is a driver defect
                rep.disagree("generator-not-ok", format!("canon {} {}", seed, size), "generated document does not satisfy Doc.ok".into());
                continue;
            }
            let (kinds, depth) = wire_stats(&p.tree);
            rep.count(&format!("size-{:02}", size));
            rep.count(&format!("depth-{:02}", depth));
            rep.count(&format!("md-bytes-{}", match p.md.len() { 0..=63 => "0-63", 64..=255 => "64-255", 256..=1023 => "256-1023", _ => "1024+" }));
            rep.add("nodes", kinds.len() as u64);
            for k in &kinds {
                rep.count(&format!("kind-{}", k));
            }
            if p.tree.contains(" list 0 0 2 1 0 ") || p.tree.contains("N list 0 0 0 0 0 ") {
                rep.count("list-bullet");
            }
            if p.tree.contains("N list 0 0 0 0 1 ") {
                rep.count("list-ordered");
            }
            if kinds.len() > 2 {
                rep.nontrivial(&kinds);
            }
            {
                // constructs the tree does not show: reference definitions (leading / trailing), setext, indented code
                let lines: Vec<&[u8]> = p.md.split(|c| *c == b'\n').collect();
                let is_def = |l: &[u8]| l.first() == Some(&b'[') && l.windows(3).any(|w| w == b"]: ");
                let first_content = lines.iter().position(|l| !l.is_empty() && !is_def(l));
                let ndef = lines.iter().filter(|l| is_def(l)).count();
                if ndef > 0 {
                    rep.count("docs-with-reference-definitions");
                    rep.add("reference-definitions", ndef as u64);
                    let lead = lines.iter().take(first_content.unwrap_or(lines.len())).filter(|l| is_def(l)).count();
                    rep.add("reference-definitions-before-use", lead as u64);
                    rep.add("reference-definitions-after-use", (ndef - lead) as u64);
                }
                if p.tree.contains("N heading 0 0 0 0 1 1") || p.tree.contains("N heading 0 0 0 0 2 1") {
                    rep.count("docs-with-setext-heading");
                }
                if p.tree.contains("N code_block 0 0 0 0 0 0 0 0 - ") {
                    rep.count("docs-with-indented-code");
                }
                if p.tree.contains(" 1 0 N item") {
                    rep.count("docs-with-tight-list");
                }
            }
            if rep.samples.len() < 4 && kinds.len() > 8 {
                rep.sample(format!("canon {} {}: {:?}", seed, size, show(&p.md)));
            }
            let (kf, sf) = eval(&p, rep, true, &format!("canon {} {}", seed, size));
            if (kf || sf) && failing.len() < 3 {
                failing.push((*seed, *size));
            }
        }
        done += chunk;
    }
    // the listed finding, re-observed on every run (S only: these documents are outside Doc.ok)
    for (md, html) in HR_PROBES {
        rep.count("directed-hr-blank-probe");
        rep.s_evals += 1;
        match real(md) {
            Ok(r) if r.html == html.as_bytes() => {}
            Ok(r) => rep.fail(
                "html-vs-reference",
                sig_of(md.as_bytes()),
                format!("case {} {}", hex(md.as_bytes()), hex(html.as_bytes())),
                format!("markdown_to_html differs from the rendering the specification prescribes on {:?}: {}", md, diff_window(&r.html, html.as_bytes())),
            ),
            Err(e) => rep.fail("canon-total", "panic", format!("case {} {}", hex(md.as_bytes()), hex(html.as_bytes())), e),
        }
    }
    // shrink: smaller sizes of the same seed are different, smaller documents; report the smallest failing one
    for (seed, size) in failing {
        let reqs: Vec<String> = (0..size).map(|z| format!("canon {} {}", seed, z)).collect();
        let resps = m.batch(&reqs);
        for (z, resp) in resps.iter().enumerate() {
            if let Some(p) = crate::model::ok(resp).ok().and_then(parse_resp) {
                if !p.ok {
                    continue;
                }
                let (kf, sf) = eval(&p, rep, false, "");
                if kf || sf {
                    // the smaller document goes first: the runner writes the first case of a class as the replay
                    let mut tmp = Report::new("C03");
                    eval(&p, &mut tmp, true, &format!("shrunk from canon {} {} to size {}", seed, size, z));
                    for c in tmp.s_fail.into_iter().rev() {
                        rep.s_fail.insert(0, c);
                    }
                    for c in tmp.k_disagree.into_iter().rev() {
                        rep.k_disagree.insert(0, c);
                    }
                    break;
                }
            }
        }
    }
}

pub fn replay(kind: &str, input: &str) -> Result<Option<String>, String> {
    let mut rep = Report::new("C03");
    let toks: Vec<&str> = input.splitn(3, ' ').collect();
    let p = match toks.as_slice() {
        ["case", md, html] => {
            let md = unhex(md).ok_or("bad hex")?;
            let html = unhex(html).ok_or("bad hex")?;
            let mdstr = String::from_utf8(md.clone()).map_err(|_| "bad utf8")?;
            // the tree is not part of an S replay: take the real one so that only S can fail
            let tree = real(&mdstr).map(|r| r.tree).unwrap_or_default();
            Parsed { ok: true, md, html, tree }
        }
        ["casek", md, tree] => {
            let md = unhex(md).ok_or("bad hex")?;
            let mdstr = String::from_utf8(md.clone()).map_err(|_| "bad utf8")?;
            let html = real(&mdstr).map(|r| r.html).unwrap_or_default();
            Parsed { ok: true, md, html, tree: tree.to_string() }
        }
        ["canon", seed, size] => {
            let m = Model::from_env();
            let r = m.batch(&[format!("canon {} {}", seed, size)]);
            let body = crate::model::ok(&r[0])?.to_string();
            parse_resp(&body).ok_or("unparsable driver response")?
        }
        _ => return Err("bad replay input".into()),
    };
    eval(&p, &mut rep, true, "replay");
    for c in rep.s_fail.iter().chain(rep.k_disagree.iter()) {
        if kind.is_empty() || c.kind == kind {
            return Ok(Some(format!("{}: {}", c.kind, c.detail)));
        }
    }
    Ok(None)
}

#[allow(dead_code)]
fn _unused(_: Batch) {}
