//! One PRNG state (splitmix64 seeded xorshift64*) drives every random choice.
#[derive(Clone, Debug)]
pub struct Rng(pub u64);

impl Rng {
    pub fn new(seed: u64) -> Rng {
        let mut z = seed.wrapping_add(0x9E3779B97F4A7C15);
        z = (z ^ (z >> 30)).wrapping_mul(0xBF58476D1CE4E5B9);
        z = (z ^ (z >> 27)).wrapping_mul(0x94D049BB133111EB);
        z ^= z >> 31;
        Rng(if z == 0 { 0x1234_5678_9ABC_DEF1 } else { z })
    }
    pub fn fork(&mut self, tag: u64) -> Rng {
        Rng::new(self.next() ^ tag.wrapping_mul(0xD1342543DE82EF95))
    }
    pub fn next(&mut self) -> u64 {
        let mut x = self.0;
        x ^= x >> 12;
        x ^= x << 25;
        x ^= x >> 27;
        self.0 = x;
        x.wrapping_mul(0x2545F4914F6CDD1D)
    }
    pub fn below(&mut self, n: usize) -> usize {
        if n == 0 { 0 } else { (self.next() % (n as u64)) as usize }
    }
    pub fn range(&mut self, lo: usize, hi: usize) -> usize {
        lo + self.below(hi - lo + 1)
    }
    pub fn chance(&mut self, num: usize, den: usize) -> bool {
        self.below(den) < num
    }
    pub fn pick<'a, T>(&mut self, xs: &'a [T]) -> &'a T {
        &xs[self.below(xs.len())]
    }
    /// Picks one string from a slice of string slices.
    pub fn ps<'a>(&mut self, xs: &[&'a str]) -> &'a str {
        xs[self.below(xs.len())]
    }
    pub fn byte(&mut self) -> u8 {
        (self.next() & 0xFF) as u8
    }
}
