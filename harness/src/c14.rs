//! C14: tagfilter. K: the real `tagfilter` / `tagfilter_block` (hook) vs the Lean model, exhaustively
//! over short strings on the property's alphabet and structurally over name x cut x delimiter x case;
//! whole documents with tagfilter on/off through the shared renderer correspondence.
//! S: the independent GFM spec (Lean `disallowedAt` / `rewriteSpec`) on the real outputs.
use crate::gen::Corpus;
use crate::htmlk::{gen_case, push_html_k, Src};
use crate::model::{Batch, Model};
use crate::opts::Opts;
use crate::report::Report;
use crate::rng::Rng;
use crate::util::{hex, show, unhex};
use crate::Cfg;
use comrak::html::verif_hooks::{tagfilter, tagfilter_block};
use std::panic::{catch_unwind, AssertUnwindSafe};

const NAMES: &[&str] = &["title", "textarea", "style", "xmp", "iframe", "noembed", "noframes", "script", "plaintext"];
// '<', '/', '>', space, newline, quote and the 17 distinct letters of the nine names
const ALPHA: &[u8] = b"</> \n\"abcdefhilmnoprstxy";
/// Allowed markup that leaves a scanner with state (open tag, open quote, open comment) in front of the tag under test.
const QUOTE_CONTEXTS: &[&str] = &[
    "<div title=\"", "<div title='", "<a \"x\" '", "<div class=\"\n", "<p x=\"y\">", "<p x='y' z=\"w\"> \"", "<!-- \"", "<a\n'\n",
    "<b \"><i '>", "<div title=\"a>b\" ", "<p\"", "<p>\"'",
];

// ---------------------------------------------------------------- the rule, written once more in Rust
// (the renderers are checked against it on single-node trees: a literal placed as inline HTML in a paragraph and
// as an HTML block of every block type, rendered with raw HTML allowed and the filter on)

fn spec_disallowed_at(s: &[u8]) -> bool {
    if s.first() != Some(&b'<') {
        return false;
    }
    let i = if s.get(1) == Some(&b'/') { 2 } else { 1 };
    for name in NAMES {
        let n = name.len();
        if s.len() >= i + n && s[i..i + n].eq_ignore_ascii_case(name.as_bytes()) {
            return match s.get(i + n) {
                Some(9) | Some(10) | Some(12) | Some(13) | Some(32) | Some(b'>') => true,
                Some(b'/') => s.get(i + n + 1) == Some(&b'>'),
                _ => false,
            };
        }
    }
    false
}

fn spec_rewrite(s: &[u8]) -> Vec<u8> {
    let mut out = Vec::with_capacity(s.len());
    for (k, c) in s.iter().enumerate() {
        if *c == b'<' && spec_disallowed_at(&s[k..]) {
            out.extend_from_slice(b"&lt;");
        } else {
            out.push(*c);
        }
    }
    out
}

fn render_single(block_type: Option<u8>, lit: &str) -> Option<Vec<u8>> {
    use comrak::nodes::{Ast, AstNode, NodeHtmlBlock, NodeValue};
    let r = catch_unwind(AssertUnwindSafe(|| {
        let arena = comrak::Arena::new();
        let mk = |v: NodeValue| -> &AstNode { arena.alloc(comrak::arena_tree::Node::new(std::cell::RefCell::new(Ast::new(v, (0, 0).into())))) };
        let root = mk(NodeValue::Document);
        match block_type {
            Some(bt) => root.append(mk(NodeValue::HtmlBlock(NodeHtmlBlock { block_type: bt, literal: lit.to_string() }))),
            None => {
                let p = mk(NodeValue::Paragraph);
                root.append(p);
                p.append(mk(NodeValue::HtmlInline(lit.to_string())));
            }
        }
        let mut o = comrak::Options::default();
        o.render.unsafe_ = true;
        o.extension.tagfilter = true;
        let mut out = Vec::new();
        comrak::format_html(root, &o, &mut out).unwrap();
        out
    }));
    r.ok()
}

/// The two renderers against the rule on one literal.
fn check_rendered(rep: &mut Report, lit: &[u8], block_type: u8) {
    let s = match std::str::from_utf8(lit) {
        Ok(s) if !s.is_empty() => s,
        _ => return,
    };
    rep.s_evals += 2;
    let mut want_inline = b"<p>".to_vec();
    if spec_disallowed_at(lit) {
        want_inline.extend_from_slice(b"&lt;");
        want_inline.extend_from_slice(&lit[1..]);
    } else {
        want_inline.extend_from_slice(lit);
    }
    want_inline.extend_from_slice(b"</p>\n");
    match render_single(None, s) {
        Some(got) if got == want_inline => {}
        Some(got) => rep.fail("rendered-inline-vs-gfm-spec", "inline", format!("lit {}", hex(lit)), format!("inline HTML {:?} is written {:?}, the rule gives {:?}", show(lit), show(&got), show(&want_inline))),
        None => rep.fail("tagfilter-total", "panic-in-render", format!("lit {}", hex(lit)), "format_html panics on an inline HTML node".into()),
    }
    let mut want_block = spec_rewrite(lit);
    if want_block.last() != Some(&b'\n') {
        want_block.push(b'\n');
    }
    match render_single(Some(block_type), s) {
        Some(got) if got == want_block => {}
        Some(got) => rep.fail("rendered-block-vs-gfm-spec", "block", format!("blk {} {}", block_type, hex(lit)), format!("HTML block (type {}) {:?} is written {:?}, the rule gives {:?}", block_type, show(lit), show(&got), show(&want_block))),
        None => rep.fail("tagfilter-total", "panic-in-render", format!("blk {} {}", block_type, hex(lit)), "format_html panics on an HTML block node".into()),
    }
}

fn push_literal<'a>(bt: &mut Batch<'a>, rep: &mut Report, lit: Vec<u8>) {
    // the renderers on this literal: block type cycles through 0..=7 with the literal's length and first bytes
    let bt_no = ((lit.len() + lit.iter().take(3).map(|b| *b as usize).sum::<usize>()) % 8) as u8;
    check_rendered(rep, &lit, bt_no);
    // raw HTML literals are Rust `String`s: only valid UTF-8 can reach `tagfilter`
    // (it uses `from_utf8_unchecked`, so anything else would be undefined behaviour of the harness)
    if std::str::from_utf8(&lit).is_err() {
        rep.count("skipped-invalid-utf8");
        return;
    }
    let h = hex(&lit);
    let real = catch_unwind(AssertUnwindSafe(|| (tagfilter(&lit), tagfilter_block(&lit))));
    match real {
        Err(_) => rep.fail("tagfilter-total", "panic", format!("lit {}", h), format!("tagfilter panics on {:?}", show(&lit))),
        Ok((b, blk)) => {
            if b || blk != lit {
                rep.nontrivial(&lit);
            }
            let want = format!("{} {}", if b { 1 } else { 0 }, hex(&blk));
            let (h1, h2, h3) = (h.clone(), h.clone(), h.clone());
            let (w1, w2) = (want.clone(), want);
            // form feed ends a tag name for the HTML tokenizer but is not in comrak's isspace: listed finding
            let ff = lit.contains(&0x0c);
            let sig2 = if ff { "formfeed-delimiter" } else { "literal" };
            let sig3 = if ff { "formfeed-delimiter" } else { "block" };
            bt.push(format!("tagf {}", h), move |resp, rep| {
                rep.k_evals += 1;
                if resp != w1 {
                    rep.disagree("tagfilter-model", format!("lit {}", h1), format!("real={} model={}", w1, resp));
                }
            });
            bt.push(format!("tagspec {}", h), move |resp, rep| {
                rep.s_evals += 1;
                if resp != w2 {
                    rep.fail("tagfilter-vs-gfm-spec", sig2, format!("lit {}", h2), format!("real (filtered?, block rewrite) = {} but the GFM rule gives {}", w2, resp));
                }
            });
            bt.push(format!("survivors {}", hex(&blk)), move |resp, rep| {
                rep.s_evals += 1;
                if resp != "0" {
                    rep.fail("disallowed-tag-survives", sig3, format!("lit {}", h3), format!("{} disallowed tag(s) survive in {:?}", resp, show(&blk)));
                }
            });
        }
    }
}

fn case_mask(s: &[u8], mask: u32) -> Vec<u8> {
    s.iter().enumerate().map(|(i, c)| if mask >> (i % 32) & 1 == 1 { c.to_ascii_uppercase() } else { *c }).collect()
}

pub fn run(cfg: &Cfg, rep: &mut Report) {
    let m = Model::from_env();
    let mut rng = Rng::new(cfg.seed ^ 0xC14);
    rep.rule = "exhaustive short literals over the alphabet {<,/,>,space,newline,quote, 17 letters} in three letter cases; structured literals (name prefix/exact/extended x every cut x every delimiter x case masks); random longer literals; documents with raw HTML under unsafe_ with tagfilter on and off. distinct_nontrivial counts distinct literals that the filter rewrites, plus distinct (kind sequence, options) document classes".into();
    // 1. exhaustive short strings
    let maxlen = if cfg.tier_thorough { 4 } else { 3 };
    let mut bt = Batch::new();
    let mut cur: Vec<Vec<u8>> = vec![vec![]];
    let mut all: Vec<Vec<u8>> = vec![vec![]];
    for _ in 0..maxlen {
        let mut next = vec![];
        for s in &cur {
            for &c in ALPHA {
                let mut t = s.clone();
                t.push(c);
                next.push(t);
            }
        }
        all.extend(next.iter().cloned());
        cur = next;
    }
    let n_exh = all.len();
    for s in all {
        let up = s.to_ascii_uppercase();
        let alt = case_mask(&s, 0b0101_0101_0101);
        rep.count(&format!("exhaustive-len{}", s.len()));
        if up != s {
            push_literal(&mut bt, rep, up);
        }
        if alt != s {
            push_literal(&mut bt, rep, alt);
        }
        push_literal(&mut bt, rep, s);
    }
    rep.exhaustive = true;
    rep.exhaustive_what.push(format!("all {} strings of length <= {} over the 23-symbol alphabet, in lower, upper and alternating case", n_exh, maxlen));
    bt.run(&m, rep);

    // 1b. large blocks (a budget or a chunked scan shows only beyond some size): many allowed tags, a few disallowed ones
    for rows in [40usize, 400, 1500, 6000] {
        let mut lit = String::from("<table>\n");
        for i in 0..rows {
            lit.push_str("<tr><td>a</td><td>b &lt; c</td></tr>\n");
            if i % 97 == 13 {
                lit.push_str("<title>t</title> <XMP > </script\n>\n");
            }
        }
        lit.push_str("</table>\n");
        rep.count("large-block");
        check_rendered(rep, lit.as_bytes(), 6);
    }
    // 2. structured: '<' '/'? (proper prefix | exact | extended name) delimiter..., every cut point
    let mut bt = Batch::new();
    let delims: &[&[u8]] = &[b"", b" ", b"\n", b"\t", b"\x0b", b"\x0c", b"\x0c>", b"\r", b">", b"/>", b"/", b"/ >", b"x", b"-", b"<", b"\"", b"=", b"\xc2\xa0", b"/>x", b" x=\"y\">"];
    let mut n_struct = 0;
    for name in NAMES {
        for slash in [false, true] {
            for variant in 0..3 {
                let nm: Vec<u8> = match variant {
                    0 => name.as_bytes().to_vec(),
                    1 => name.as_bytes()[..name.len() - 1].to_vec(),
                    _ => {
                        let mut v = name.as_bytes().to_vec();
                        v.push(b's');
                        v
                    }
                };
                for d in delims {
                    let mut full = vec![b'<'];
                    if slash {
                        full.push(b'/');
                    }
                    full.extend_from_slice(&nm);
                    full.extend_from_slice(d);
                    for mask in [0u32, 0xFFFF_FFFF, 0b1010_1010_1010, 0b0000_0110, rng.next() as u32] {
                        let lit = case_mask(&full, mask);
                        for cut in 1..=lit.len() {
                            push_literal(&mut bt, rep, lit[..cut].to_vec());
                            n_struct += 1;
                        }
                        // embedded in a block with neighbours
                        let mut blk = b"a <b> ".to_vec();
                        blk.extend_from_slice(&lit);
                        blk.extend_from_slice(b" <");
                        blk.extend_from_slice(&lit[1..]);
                        push_literal(&mut bt, rep, blk);
                        n_struct += 1;
                    }
                    // after an allowed tag that holds quotes, comment openers or a cut-off attribute: a filter
                    // that tracks tag or quote state over the block shows only behind such a context
                    // (fixed masks: no draw from the random stream)
                    for (ci, ctx) in QUOTE_CONTEXTS.iter().enumerate() {
                        let lit = case_mask(&full, if ci % 2 == 0 { 0 } else { 0b0110_1001_0110 });
                        let mut blk = ctx.as_bytes().to_vec();
                        blk.extend_from_slice(&lit);
                        blk.extend_from_slice(b"x</p>\n");
                        push_literal(&mut bt, rep, blk);
                        rep.count("quote-context-literal");
                        n_struct += 1;
                    }
                }
            }
        }
    }
    rep.add("structured-literals", n_struct);
    bt.run(&m, rep);

    // 3. random longer literals incl. U+212A / U+0130
    let n = if cfg.tier_thorough { 300_000 } else if cfg.full { 60_000 } else { 10_000 };
    let mut bt = Batch::new();
    let frags: &[&str] = &["<", "</", ">", "/>", " ", "\n", "\"", "title", "TEXTAREA", "Style", "xmp", "iframe", "noembed", "noframes", "script", "plaintext",
        "\u{212a}", "\u{130}", "t\u{130}tle", "scr\u{131}pt", "s", "x", "=", "a", "<!--", "-->", "é", "tit", "le"];
    for i in 0..n {
        let k = rng.range(1, 8);
        let mut s = String::new();
        for _ in 0..k {
            s.push_str(rng.ps(frags));
        }
        if i < 3 {
            rep.sample(format!("literal {:?}", s));
        }
        rep.count("random-literal");
        push_literal(&mut bt, rep, s.into_bytes());
    }
    bt.run(&m, rep);

    // 4. documents / direct trees with raw HTML, tagfilter on and off, through the renderer correspondence
    let corpus = Corpus::load();
    let n = if cfg.tier_thorough { 60_000 } else if cfg.full { 15_000 } else { 3_000 };
    let mut bt = Batch::new();
    for i in 0..n {
        let (src, name) = gen_case(&mut rng, &corpus);
        let mut o = Opts::random(&mut rng);
        o.set("unsafe_", true).set("escape", false);
        if i < 2 {
            rep.sample(format!("{} opts [{}]", src.show(), o.describe()));
        }
        for tf in [true, false] {
            let oo = o.clone().with("tagfilter", tf);
            push_html_k(&mut bt, rep, &oo, &src, name);
        }
        // every raw literal of the real tree, parsed or placed directly, through the literal checks
        let lits = src.with_root(&o, |root| {
            let mut v: Vec<Vec<u8>> = vec![];
            for n in root.descendants() {
                match &n.data.borrow().value {
                    comrak::nodes::NodeValue::HtmlBlock(h) => v.push(h.literal.clone().into_bytes()),
                    comrak::nodes::NodeValue::HtmlInline(h) => v.push(h.clone().into_bytes()),
                    _ => {}
                }
            }
            v
        });
        if let Ok(lits) = lits {
            for l in lits {
                rep.count("document-raw-literal");
                push_literal(&mut bt, rep, l);
            }
        }
        if bt.len() > 20_000 {
            let b = std::mem::replace(&mut bt, Batch::new());
            b.run(&m, rep);
        }
    }
    bt.run(&m, rep);
}

pub fn replay(kind: &str, input: &str) -> Result<Option<String>, String> {
    let m = Model::from_env();
    let mut rep = Report::new("C14");
    let mut bt = Batch::new();
    if let Some(h) = input.strip_prefix("lit ") {
        push_literal(&mut bt, &mut rep, unhex(h).ok_or("bad hex")?);
    } else if let Some(rest) = input.strip_prefix("blk ") {
        let (t, h) = rest.split_once(' ').ok_or("bad replay input")?;
        check_rendered(&mut rep, &unhex(h).ok_or("bad hex")?, t.parse().map_err(|_| "bad block type")?);
    } else {
        let (o, src) = Src::parse_input(input).ok_or("bad replay input")?;
        push_html_k(&mut bt, &mut rep, &o, &src, "replay");
    }
    bt.run(&m, &mut rep);
    for c in rep.s_fail.iter().chain(rep.k_disagree.iter()) {
        if kind.is_empty() || c.kind == kind {
            return Ok(Some(format!("{}: {}", c.kind, c.detail)));
        }
    }
    Ok(None)
}
