//! cvh: correspondence / search harness. Links /repo's comrak (working tree) and compares
//! it with the Lean model driver.
//!
//!   cvh run <Cid> --tier quick|thorough --seed N [--full] --out report.json
//!   cvh replay <Cid> <kind> <input>
mod model;
mod report;
mod rng;
mod util;
mod worker;

mod c01;
mod c06;
mod c02;
mod c03;
mod c04;
mod c05;
mod c07;
mod c09;
mod c08;
mod c10;
mod c11;
mod c12;
mod c13;
mod c14;
mod c15;
mod c16;
mod c17;
mod c18;
mod c19;
mod c20;
mod cmrt;
mod registry;
mod gen;
mod htmlk;
mod opts;
mod ser;
mod spk;
mod treegen;

use report::Report;

/// Allocation cap: a mutant (or defect) that allocates without bound must end as an abort of the
/// process running the case, not as the machine's OOM killer picking a victim.
struct CapAlloc;
static ALLOC_USED: std::sync::atomic::AtomicUsize = std::sync::atomic::AtomicUsize::new(0);
static ALLOC_CAP: std::sync::atomic::AtomicUsize = std::sync::atomic::AtomicUsize::new(usize::MAX);
unsafe impl std::alloc::GlobalAlloc for CapAlloc {
    unsafe fn alloc(&self, l: std::alloc::Layout) -> *mut u8 {
        let n = ALLOC_USED.fetch_add(l.size(), std::sync::atomic::Ordering::Relaxed);
        if n.saturating_add(l.size()) > ALLOC_CAP.load(std::sync::atomic::Ordering::Relaxed) {
            std::process::abort();
        }
        std::alloc::System.alloc(l)
    }
    unsafe fn dealloc(&self, p: *mut u8, l: std::alloc::Layout) {
        ALLOC_USED.fetch_sub(l.size(), std::sync::atomic::Ordering::Relaxed);
        std::alloc::System.dealloc(p, l)
    }
    unsafe fn realloc(&self, p: *mut u8, l: std::alloc::Layout, new_size: usize) -> *mut u8 {
        if new_size > l.size() {
            let n = ALLOC_USED.fetch_add(new_size - l.size(), std::sync::atomic::Ordering::Relaxed);
            if n.saturating_add(new_size - l.size()) > ALLOC_CAP.load(std::sync::atomic::Ordering::Relaxed) {
                std::process::abort();
            }
        } else {
            ALLOC_USED.fetch_sub(l.size() - new_size, std::sync::atomic::Ordering::Relaxed);
        }
        std::alloc::System.realloc(p, l, new_size)
    }
}
#[global_allocator]
static GLOBAL: CapAlloc = CapAlloc;

pub struct Cfg {
    pub tier_thorough: bool,
    pub seed: u64,
    /// run the search stage at full volume (set when P or K broke)
    pub full: bool,
}

fn main() {
    // panics of the code under test are caught per case and reported; keep stderr quiet
    if std::env::var("CVH_PANIC_TRACE").is_err() {
        std::panic::set_hook(Box::new(|_| {}));
    }
    let args: Vec<String> = std::env::args().collect();
    // workers get 4 GiB, the coordinating process 24 GiB (override with CVH_MEM_CAP_MB)
    {
        let default_mb: usize = if args.get(1).map(|a| a == "worker").unwrap_or(false) { 4096 } else { 24576 };
        let mb = std::env::var("CVH_MEM_CAP_MB").ok().and_then(|v| v.parse().ok()).unwrap_or(default_mb);
        ALLOC_CAP.store(mb.saturating_mul(1 << 20), std::sync::atomic::Ordering::Relaxed);
    }
    if args.len() < 3 {
        eprintln!("usage: cvh run <Cid> [--tier T] [--seed N] [--full] [--out F] | cvh replay <Cid> <kind> <input>");
        std::process::exit(2);
    }
    match args[1].as_str() {
        "run" => {
            let id = args[2].clone();
            let mut cfg = Cfg { tier_thorough: false, seed: 1, full: false };
            let mut out: Option<String> = None;
            let mut i = 3;
            while i < args.len() {
                match args[i].as_str() {
                    "--tier" => {
                        cfg.tier_thorough = args[i + 1] == "thorough";
                        i += 1;
                    }
                    "--seed" => {
                        cfg.seed = args[i + 1].parse().unwrap_or(1);
                        i += 1;
                    }
                    "--full" => cfg.full = true,
                    "--out" => {
                        out = Some(args[i + 1].clone());
                        i += 1;
                    }
                    _ => {}
                }
                i += 1;
            }
            let mut rep = Report::new(&id);
            match registry::find(&id) {
                Some(e) => (e.run)(&cfg, &mut rep),
                None => {
                    eprintln!("unknown property {}", id);
                    std::process::exit(2);
                }
            }
            let js = rep.json();
            match out {
                Some(p) => std::fs::write(p, js).expect("write report"),
                None => println!("{}", js),
            }
        }
        "worker" => match args[2].as_str() {
            "C01" => worker::worker_main(c01::worker_case),
            "C06" => worker::worker_main(c06::worker_case),
            "C05" => worker::worker_main(c05::worker_case),
            _ => std::process::exit(2),
        },
        "regen" => {
            // cvh regen <table> <outdir>: regenerate a finite table from the real code (DESIGN 3.3)
            let outdir = args.get(3).map(|s| s.as_str()).unwrap_or("/verif/lean/Comrak/Generated");
            let r = match args[2].as_str() {
                "specialchars" => c13::regen(outdir),
                other => Err(format!("unknown table {}", other)),
            };
            if let Err(e) = r {
                eprintln!("regen {} failed: {}", args[2], e);
                std::process::exit(1);
            }
        }
        "replay" => {
            let id = args[2].as_str();
            let kind = args.get(3).map(|s| s.as_str()).unwrap_or("");
            let input = args.get(4).map(|s| s.as_str()).unwrap_or("");
            let r = match registry::find(id) {
                Some(e) => (e.replay)(kind, input),
                None => Err(format!("unknown property {}", id)),
            };
            match r {
                Ok(None) => {
                    println!("PASS {} {} {}", id, kind, input);
                }
                Ok(Some(detail)) => {
                    println!("FAIL {} {} {} :: {}", id, kind, input, detail);
                    std::process::exit(1);
                }
                Err(e) => {
                    println!("ERROR {}", e);
                    std::process::exit(2);
                }
            }
        }
        _ => std::process::exit(2),
    }
}
