//! Shared machinery of C11 / C12 (source positions): document generator over an alphabet mixing ASCII,
//! multi-byte characters and tabs with inlines spanning lines inside nested containers, the S stage
//! (Lean oracles `spcheck11` / `spcheck12` on the real tree), classification of failures into narrow
//! syntactic classes (the `sig`), and the K stage for the mechanism models (Spx::consume, content map).
use crate::htmlk::{doc_input, parse_doc_input};
use crate::model::{Batch, Model};
use crate::opts::Opts;
use crate::report::Report;
use crate::rng::Rng;
use crate::ser::{kind_name, ser_tree};
use crate::util::{hex, show};
use crate::Cfg;
use comrak::nodes::{AstNode, NodeValue};
use comrak::{parse_document, Arena};
use std::panic::{catch_unwind, AssertUnwindSafe};

#[derive(Clone, Copy, PartialEq, Eq, Debug)]
pub enum Which {
    C11,
    C12,
}

#[derive(Clone, Debug)]
pub struct NodeRec {
    pub kind: &'static str,
    pub sp: (usize, usize, usize, usize),
    pub parent: Option<usize>,
    pub html_type: u8,
    pub fenced: bool,
    pub nchildren: usize,
    pub lit_len: usize,
}

pub struct Parsed {
    pub wire: String,
    pub nodes: Vec<NodeRec>,
}

fn records<'a>(root: &'a AstNode<'a>) -> Vec<NodeRec> {
    let mut out: Vec<NodeRec> = vec![];
    let mut stack: Vec<(&'a AstNode<'a>, Option<usize>)> = vec![(root, None)];
    while let Some((n, parent)) = stack.pop() {
        let ast = n.data.borrow();
        let sp = ast.sourcepos;
        let idx = out.len();
        let kids: Vec<_> = n.children().collect();
        out.push(NodeRec {
            kind: kind_name(&ast.value),
            sp: (sp.start.line, sp.start.column, sp.end.line, sp.end.column),
            parent,
            html_type: match &ast.value {
                NodeValue::HtmlBlock(h) => h.block_type,
                _ => 0,
            },
            fenced: match &ast.value {
                NodeValue::CodeBlock(c) => c.fenced,
                _ => false,
            },
            nchildren: kids.len(),
            lit_len: match &ast.value {
                NodeValue::Text(t) => t.len(),
                _ => usize::MAX,
            },
        });
        for k in kids.into_iter().rev() {
            stack.push((k, Some(idx)));
        }
    }
    out
}

pub fn parse(md: &str, o: &Opts) -> Result<Parsed, String> {
    let c = o.to_comrak();
    let arena = Arena::new();
    let root = catch_unwind(AssertUnwindSafe(|| parse_document(&arena, md, &c))).map_err(|_| "PANIC in parse_document".to_string())?;
    Ok(Parsed { wire: ser_tree(root), nodes: records(root) })
}

// ---------------------------------------------------------------------------------------------
// generator

const WORDS: &[&str] = &[
    "alpha", "beta", "x", "Z", "foo", "bar", "1", "42", "é", "世界", "𝄞", "ß", "naïve", "a\tb", "日本", "ö", "q", "w", "www", "wa", "k:v", "a.b", "a-b", "e", "don't",
    "\"q\"", "a--b", "end.", "wait...",
];

fn words(r: &mut Rng) -> String {
    let n = r.range(1, 4);
    let mut s = String::new();
    for i in 0..n {
        if i > 0 {
            s.push_str(r.ps(&[" ", " ", " ", "  ", "\t"]));
        }
        s.push_str(r.ps(WORDS));
    }
    s
}

/// A line break inside an inline: soft, hard (two spaces), hard (backslash).
fn brk(r: &mut Rng) -> &'static str {
    r.ps(&["\n", "\n", "\n", "  \n", "\\\n", " \n"])
}

fn inline(r: &mut Rng, depth: usize, multi: bool) -> String {
    let k = if depth == 0 { r.below(6) } else { r.below(34) };
    let sub = |r: &mut Rng| -> String {
        let a = inline(r, depth - 1, multi);
        if multi && r.chance(1, 3) {
            format!("{}{}{}", a, brk(r), inline(r, depth - 1, multi))
        } else if r.chance(1, 3) {
            format!("{} {}", a, inline(r, depth - 1, multi))
        } else {
            a
        }
    };
    match k {
        0..=5 => words(r),
        6 | 7 => format!("*{}*", sub(r)),
        8 | 9 => format!("**{}**", sub(r)),
        10 => format!("_{}_", sub(r)),
        11 => format!("__{}__", sub(r)),
        12 | 13 => {
            let t = r.ps(&["`", "`", "``"]);
            if multi && r.chance(1, 3) {
                format!("{}{}\n{}{}", t, words(r), words(r), t)
            } else {
                format!("{}{}{}", t, words(r), t)
            }
        }
        14 | 15 => format!("[{}]({})", sub(r), r.ps(&["/u", "http://a.b/c?d=e", "<a b>", "#f", "é"])),
        16 => format!("[{}]({} \"{}\")", sub(r), r.ps(&["/u", "x.y"]), words(r).replace('"', "")),
        17 => format!("![{}]({})", sub(r), r.ps(&["/i.png", "é.gif"])),
        18 => format!("<{}>", r.ps(&["http://a.b/c", "https://x.y?z=1", "mailto:a@b.c", "a@b.c"])),
        19 => format!("~~{}~~", sub(r)),
        20 => format!("[{}][{}]", sub(r), r.ps(&["r1", "R1", "nope"])),
        21 => r.ps(&["[r1]", "[r1][]", "[nope]"]).to_string(),
        22 => r.ps(&["www.example.com/a?b=c", "http://x.y/z", "https://a.b", "a@b.co", "ftp://f.g/h", "news://n.o/p", "see twitter://x.y now", "rawr://r.s", "ann@example.org or bob@example.org today", "a@b.co c@d.eu e", "mu\u{17e} *\u{17e}ena* \u{307e}"]).to_string(),
        23 => format!("[^{}]{}", r.ps(&["a", "b", "nope"]), r.ps(&["", "", "", "[b]", "[]", "[^b]", "[r1]", "(u)", "[nope]"])),
        24 => r.ps(&["\\*", "\\_", "\\\\", "\\[", "&amp;", "&#35;", "&copy;", "&nosuch;"]).to_string(),
        25 => format!("{}{}{}", words(r), brk(r), words(r)),
        26 => format!("${}$", r.ps(&["x", "a+b", "1"])),
        27 => format!("^{}^", r.ps(&["x", "2"])),
        28 => format!("~{}~", r.ps(&["x", "2"])),
        29 => format!("||{}||", words(r)),
        30 => r.ps(&["<b>", "</b>", "<i class=\"x\">", "<br/>", "<!-- c -->", "<?p ?>"]).to_string(),
        31 => r.ps(&["[[w]]", "[[u|t]]"]).to_string(),
        32 => r.ps(&["*", "_", "`", "[", "]", "!", "<", "$", "~", "^", "|", ":", "'", "\""]).to_string(),
        _ => format!("{} {}", words(r), r.ps(&["!", "?", ";", "(x)", "#1"])),
    }
}

fn inlines(r: &mut Rng, multi: bool) -> String {
    let n = r.range(1, 4);
    let mut s = String::new();
    for i in 0..n {
        if i > 0 {
            if multi && r.chance(1, 3) {
                s.push_str(brk(r));
            } else if r.chance(1, 7) {
                // adjacent constructs (a bracket group right after a reference, emphasis against a link, ...)
            } else {
                s.push(' ');
            }
        }
        s.push_str(&inline(r, 2, multi));
    }
    // a paragraph line must not start with something that opens another block by accident too often
    s
}

fn single_line(s: String) -> String {
    s.replace("  \n", " ").replace("\\\n", " ").replace('\n', " ")
}

/// Prefixes the lines of `body` (first line with `first`, the others with `rest`); with `lazy` some
/// paragraph continuation lines lose their prefix.
fn prefix_lines(r: &mut Rng, body: &str, first: &str, rest: &[&str], lazy: bool) -> String {
    let mut out = String::new();
    let lines: Vec<&str> = body.lines().collect();
    for (i, l) in lines.iter().enumerate() {
        let continuation = i > 0 && !l.trim().is_empty() && !lines[i - 1].trim().is_empty();
        let starts_plain = l.chars().next().map_or(false, |c| c.is_alphanumeric() || c == '*' || c == '[' || c == '`');
        if i == 0 {
            out.push_str(first);
        } else if lazy && continuation && starts_plain && r.chance(1, 3) {
            // lazy continuation line
        } else if l.is_empty() {
            out.push_str(rest[0].trim_end());
        } else {
            out.push_str(r.ps(rest));
        }
        out.push_str(l);
        out.push('\n');
    }
    out
}

pub struct GenCfg {
    pub nul: bool,
    /// steer away from the listed defect classes (most of the stream)
    pub steer: bool,
}

fn block(r: &mut Rng, depth: usize, g: &GenCfg) -> String {
    let k = if depth == 0 { r.below(14) } else { r.below(30) };
    match k {
        0..=4 => format!("{}\n", inlines(r, true)),
        5 => format!("{} {}{}\n", "#".repeat(r.range(1, 6)), single_line(inlines(r, false)), r.ps(&["", "", " #", " ##  "])),
        6 => {
            let multi = r.chance(1, 3);
            format!("{}\n{}\n", inlines(r, multi), r.ps(&["===", "---", "=", "-----  "]))
        }
        7 => {
            if g.steer {
                r.ps(&["---\n", "***\n", "* * *\n", "___\n", " ---\n", "- - -\n"]).to_string()
            } else {
                r.ps(&["---\n", "***  \n", "* * *\n", "_\t_\t_\n"]).to_string()
            }
        }
        8 | 9 => {
            let f = r.ps(&["```", "~~~", "````"]);
            let closed = !r.chance(1, 6);
            format!("{}{}\n{}\n{}", f, r.ps(&["", "rust", " a b", "é"]), words(r), if closed { format!("{}\n", f) } else { String::new() })
        }
        10 => format!("    {}\n{}", words(r), if r.chance(1, 3) { format!("\n    {}\n", words(r)) } else { String::new() }),
        11 => {
            if g.steer {
                r.ps(&["<div>\nx *y*\n</div>\n", "<!-- c\nd -->\n", "<script>\nalert(1)\n</script>\n", "<?php\n?>\n", "<table><tr><td>\nx\n</td></tr></table>\n", "<a href=\"x\">\ny\n"])
                    .to_string()
            } else {
                r.ps(&["<!-- c -->\n", "<?php x ?>\n", "<script>x</script>\n", "<!DOCTYPE html>\n", "<![CDATA[x]]>\n", "<pre>x</pre>\n"]).to_string()
            }
        }
        12 => format!("[^{}]: {}\n", r.ps(&["a", "b"]), single_line(inlines(r, false))),
        13 => format!("{}\n", words(r)),
        14..=17 => {
            // block quote
            let n = r.range(1, 3);
            let mut s = String::new();
            for i in 0..n {
                if i > 0 {
                    s.push('\n');
                }
                s.push_str(&block(r, depth - 1, g));
            }
            let rest: &[&str] = if r.chance(1, 4) { &["> ", ">", " > ", ">  "] } else { &["> "] };
            let first = r.ps(&["> ", "> ", ">", " > "]);
            let lazy = r.chance(1, 3);
            prefix_lines(r, &s, first, rest, lazy)
        }
        18..=21 => {
            // list
            let ordered = r.chance(1, 2);
            let n = r.range(1, 3);
            let loose = r.chance(1, 3);
            let mut s = String::new();
            for i in 0..n {
                let marker = if ordered { format!("{}{} ", 1 + i, r.ps(&[".", ")"])) } else { format!("{} ", r.ps(&["-", "*", "+"])) };
                let task = if r.chance(1, 5) { r.ps(&["[ ] ", "[x] "]) } else { "" };
                let mut body = format!("{}{}", task, block(r, depth - 1, g));
                if r.chance(1, 3) {
                    body.push('\n');
                    body.push_str(&block(r, depth - 1, g));
                }
                let pad = " ".repeat(marker.len());
                let lazy = r.chance(1, 4);
                s.push_str(&prefix_lines(r, &body, &marker, &[&pad], lazy));
                if loose {
                    s.push('\n');
                }
            }
            s
        }
        22..=24 => {
            // table
            let cols = r.range(1, 3);
            let mut s = String::new();
            let row = |r: &mut Rng, n: usize| -> String {
                let mut t = String::from("|");
                for _ in 0..n {
                    t.push_str(r.ps(&[" ", " ", "", "  "]));
                    t.push_str(&single_line(inline(r, 1, false)).replace('|', "!"));
                    t.push_str(r.ps(&[" |", " |", "|", "\t|"]));
                }
                t.push('\n');
                t
            };
            s.push_str(&row(r, cols));
            s.push('|');
            for _ in 0..cols {
                s.push_str(r.ps(&["---|", ":--|", "--:|", ":-:|", " - |"]));
            }
            s.push('\n');
            for _ in 0..r.below(3) {
                let n = if !g.steer && r.chance(1, 3) { r.range(1, cols + 1) } else { cols };
                s.push_str(&row(r, n));
            }
            s
        }
        25 => format!("[^{}]: {}\n\n    {}\n", r.ps(&["a", "b"]), single_line(inlines(r, false)), inlines(r, true).replace('\n', "\n    ")),
        26 => {
            if g.steer {
                // reference definition after a blank line, on its own
                format!("[r1]: /u \"{}\"\n", words(r).replace('"', ""))
            } else {
                format!("[r1]: /u\n{}\n", inlines(r, true))
            }
        }
        27 => format!("> [!{}]\n> {}\n", r.ps(&["NOTE", "tip", "WARNING"]), inlines(r, true).replace('\n', "\n> ")),
        28 => format!(">>>\n{}>>>\n", block(r, depth - 1, g)),
        _ => format!("{}\n\n: {}\n", words(r), single_line(inlines(r, false))),
    }
}

/// Rewrites line endings: LF kept, CRLF, CR or a per-line mix.
fn line_endings(r: &mut Rng, s: &str) -> (String, &'static str) {
    match r.below(10) {
        0..=4 => (s.to_string(), "lf"),
        5 | 6 => (s.replace('\n', "\r\n"), "crlf"),
        7 => (s.replace('\n', "\r"), "cr"),
        _ => {
            let mut out = String::new();
            for ch in s.chars() {
                if ch == '\n' {
                    out.push_str(r.ps(&["\n", "\r\n", "\r"]));
                } else {
                    out.push(ch);
                }
            }
            (out, "mixed")
        }
    }
}

pub fn gen_doc(r: &mut Rng, g: &GenCfg) -> (String, &'static str) {
    let n = r.range(1, 5);
    let mut s = String::new();
    if r.chance(1, 5) {
        s.push_str("[r1]: /u\n\n");
    }
    for i in 0..n {
        if i > 0 && !s.ends_with("\n\n") && !r.chance(1, 6) {
            s.push('\n');
        }
        s.push_str(&block(r, 3, g));
    }
    if r.chance(1, 5) {
        s.push_str("\n[^a]: note *x*\n");
    }
    if r.chance(1, 4) {
        // no final newline
        while s.ends_with('\n') {
            s.pop();
        }
    }
    if g.nul && r.chance(1, 3) {
        let pos = r.below(s.len() + 1);
        if s.is_char_boundary(pos) {
            s.insert(pos, '\u{0}');
        }
    }
    if r.chance(1, 10) {
        s = tabify(r, &s);
    }
    if r.chance(1, 25) {
        // a byte-order mark: skipped by the parser, counted in the columns of line 1
        s.insert(0, '\u{feff}');
    }
    line_endings(r, &s)
}

/// Tabs where the generator wrote spaces in line prefixes: after every `>` marker, for the indentation
/// of continuation lines, or both (consistently over the document, so table rows keep their header's prefix).
fn tabify(r: &mut Rng, s: &str) -> String {
    let mode = r.below(3);
    let mut out = String::with_capacity(s.len());
    for l in s.split_inclusive('\n') {
        let b = l.as_bytes();
        let mut i = 0;
        loop {
            if i + 1 < b.len() && b[i] == b'>' && b[i + 1] == b' ' && mode != 1 {
                out.push_str(">\t");
                i += 2;
            } else if i < b.len() && b[i] == b'>' {
                out.push('>');
                i += 1;
            } else if i + 1 < b.len() && b[i] == b' ' && b[i + 1] == b' ' && mode != 0 {
                while i < b.len() && b[i] == b' ' {
                    i += 1;
                }
                out.push('\t');
            } else if i < b.len() && b[i] == b' ' {
                out.push(' ');
                i += 1;
            } else {
                break;
            }
        }
        out.push_str(&l[i..]);
    }
    out
}

// ---------------------------------------------------------------------------------------------
// classification of a failure: the narrow syntactic class of the construct the failing node belongs to

fn src_lines(md: &str) -> Vec<&str> {
    // same splitting as the parser: LF, CRLF, CR
    let b = md.as_bytes();
    let mut out = vec![];
    let mut start = 0;
    let mut i = 0;
    while i < b.len() {
        if b[i] == b'\n' {
            out.push(&md[start..i]);
            i += 1;
            start = i;
        } else if b[i] == b'\r' {
            out.push(&md[start..i]);
            i += 1;
            if i < b.len() && b[i] == b'\n' {
                i += 1;
            }
            start = i;
        } else {
            i += 1;
        }
    }
    if start < b.len() {
        out.push(&md[start..]);
    }
    out
}

fn find_node(p: &Parsed, kind: &str, sp: (usize, usize, usize, usize)) -> Option<usize> {
    p.nodes.iter().position(|n| n.kind == kind && n.sp == sp)
}

fn ancestors(p: &Parsed, mut i: usize) -> Vec<usize> {
    let mut v = vec![];
    while let Some(q) = p.nodes[i].parent {
        v.push(q);
        i = q;
    }
    v
}

fn is_inline(kind: &str) -> bool {
    matches!(
        kind,
        "text" | "softbreak" | "linebreak" | "code" | "html_inline" | "raw" | "emph" | "strong" | "strikethrough" | "superscript" | "link" | "image"
            | "footnote_reference" | "math" | "escaped" | "wikilink" | "underline" | "subscript" | "spoiler" | "escaped_tag"
    )
}

/// Lines `a..=b` (1-based, clipped) of the source.
fn line_span<'a>(lines: &[&'a str], a: usize, b: usize) -> Vec<&'a str> {
    let a = a.max(1);
    let b = b.min(lines.len());
    if a > b {
        return vec![];
    }
    lines[a - 1..b].to_vec()
}

/// Visual column (0-based, tab stops every 4) reached after `upto` bytes of `line`.
fn vis_col(line: &str, upto: usize) -> usize {
    let mut col = 0;
    for (i, c) in line.bytes().enumerate() {
        if i >= upto {
            break;
        }
        if c == b'\t' {
            col = (col / 4 + 1) * 4;
        } else {
            col += 1;
        }
    }
    col
}

/// Does line `ln` (1-based) carry the prefix of every container of `chain` (as many `>` as there are
/// block quotes, indentation up to the content column of the innermost list item)? `None` when the
/// chain has a container this simple reading does not cover.
fn has_container_prefix(p: &Parsed, chain: &[usize], lines: &[&str], ln: usize) -> Option<bool> {
    let line = lines.get(ln - 1)?;
    let mut quotes = 0usize;
    let mut item: Option<usize> = None;
    for &i in chain {
        match p.nodes[i].kind {
            "block_quote" => quotes += 1,
            "item" | "taskitem" => {
                if item.is_none() {
                    item = Some(i);
                }
            }
            "footnote_definition" | "alert" | "description_details" | "description_item" | "description_term" | "multiline_block_quote" | "table" | "table_cell" | "table_row" => return None,
            _ => {}
        }
    }
    // deeper nestings with tabs have defects of their own on the pinned tree (a tab split between two
    // containers): only a single container is read here
    let items = chain.iter().filter(|&&i| matches!(p.nodes[i].kind, "item" | "taskitem")).count();
    if quotes + items != 1 {
        return None;
    }
    let b = line.as_bytes();
    let mut k = 0;
    let mut gts = 0;
    while k < b.len() && (b[k] == b' ' || b[k] == b'\t' || (b[k] == b'>' && gts < quotes)) {
        if b[k] == b'>' {
            gts += 1;
        }
        k += 1;
    }
    if gts < quotes {
        return Some(false);
    }
    if let Some(i) = item {
        let it = &p.nodes[i];
        let first = lines.get(it.sp.0.checked_sub(1)?)?;
        let fb = first.as_bytes();
        let mut m = it.sp.1.checked_sub(1)?;
        if m >= fb.len() {
            return None;
        }
        if matches!(fb[m], b'-' | b'+' | b'*') {
            m += 1;
        } else {
            while m < fb.len() && fb[m].is_ascii_digit() {
                m += 1;
            }
            if m >= fb.len() || !matches!(fb[m], b'.' | b')') {
                return None;
            }
            m += 1;
        }
        let marker_end = vis_col(first, m);
        let mut e = m;
        while e < fb.len() && (fb[e] == b' ' || fb[e] == b'\t') {
            e += 1;
        }
        let w = vis_col(first, e) - marker_end;
        let content = if e >= fb.len() || w >= 5 || w == 0 { marker_end + 1 } else { marker_end + w };
        if vis_col(line, k) < content {
            return Some(false);
        }
    }
    Some(true)
}

fn is_container(kind: &str) -> bool {
    matches!(kind, "block_quote" | "item" | "taskitem" | "footnote_definition" | "alert" | "description_details" | "description_item" | "list" | "description_list")
}

/// Does `s` start with a link reference definition label (`[label]:`)?
fn starts_with_refdef(s: &str) -> bool {
    let b = s.as_bytes();
    if b.first() != Some(&b'[') {
        return false;
    }
    let mut i = 1;
    while i < b.len() && b[i] != b']' && b[i] != b'[' {
        if b[i] == b'\\' {
            i += 1;
        }
        i += 1;
    }
    i > 1 && i + 1 < b.len() && b[i] == b']' && b[i + 1] == b':'
}

/// Source text from (line, col) to the end of that line.
fn text_at<'a>(lines: &[&'a str], l: usize, c: usize) -> &'a str {
    if l == 0 || l > lines.len() || c == 0 {
        return "";
    }
    let ln = lines[l - 1];
    if c - 1 <= ln.len() && ln.is_char_boundary(c - 1) {
        &ln[c - 1..]
    } else {
        ""
    }
}

fn prev_sibling(p: &Parsed, i: usize) -> Option<usize> {
    let par = p.nodes[i].parent?;
    let mut prev = None;
    for (j, n) in p.nodes.iter().enumerate() {
        if j == i {
            return prev;
        }
        if n.parent == Some(par) {
            prev = Some(j);
        }
    }
    None
}

/// Does the part of a link after its text (`](dest "title")` or `][label]`) cross a line break?
/// Scans the source from the end of the link's last child (or its opening bracket).
fn link_tail_spans_lines(lines: &[&str], p: &Parsed, i: usize) -> bool {
    let n = &p.nodes[i];
    let last_child = p.nodes.iter().enumerate().filter(|(_, c)| c.parent == Some(i)).map(|(j, _)| j).last();
    let (mut l, mut c) = match last_child {
        Some(j) => (p.nodes[j].sp.2, p.nodes[j].sp.3 + 1),
        None => (n.sp.0, n.sp.1 + 1),
    };
    // find the `]` that closes the text (may be a few bytes further: trimmed spaces, line ends)
    let mut state = 0; // 0: looking for `]`, 1: just after `]`, 2: inside (...), 3: inside [...]
    let mut crossed = false;
    let mut steps = 0;
    let mut depth = 0;
    while l >= 1 && l <= lines.len() && steps < 400 {
        let b = lines[l - 1].as_bytes();
        if c == 0 || c - 1 >= b.len() {
            l += 1;
            c = 1;
            if state >= 2 {
                crossed = true;
            }
            if state == 1 {
                return false;
            }
            steps += 1;
            continue;
        }
        let ch = b[c - 1];
        match state {
            0 => {
                if ch == b']' {
                    state = 1;
                }
            }
            1 => {
                if ch == b'(' {
                    state = 2;
                } else if ch == b'[' {
                    state = 3;
                } else {
                    return false;
                }
            }
            2 => {
                if ch == b'\\' {
                    c += 1;
                } else if ch == b'(' {
                    depth += 1;
                } else if ch == b')' {
                    if depth == 0 {
                        return crossed;
                    }
                    depth -= 1;
                }
            }
            _ => {
                if ch == b'\\' {
                    c += 1;
                } else if ch == b']' {
                    return crossed;
                }
            }
        }
        c += 1;
        steps += 1;
    }
    false
}

/// The narrow class. Order matters: the first matching class names the failure.
/// Every class is decided from the source text and the shape of the tree around the failing node
/// (never from the positions' values alone), so that an unrelated regression on a plain document
/// cannot be absorbed by a listed class.
pub fn classify(md: &str, _o: &Opts, p: &Parsed, clause: &str, kind: &str, sp: (usize, usize, usize, usize)) -> String {
    let lines = src_lines(md);
    let idx = match find_node(p, kind, sp) {
        Some(i) => i,
        None => return format!("{}/node-not-found", kind),
    };
    let mut chain = vec![idx];
    chain.extend(ancestors(p, idx));
    let kinds: Vec<&str> = chain.iter().map(|&i| p.nodes[i].kind).collect();
    let _group = if is_inline(kind) { "inline" } else { "block" };

    // empty source: no line exists, the document node cannot satisfy 1 <= line
    if lines.is_empty() {
        return "document/empty-source".into();
    }

    // the whole input is front matter: the document ends at column 0 of the closing delimiter line
    if kind == "document" && p.nodes.iter().filter(|n| n.parent == Some(idx)).all(|n| n.kind == "frontmatter") && p.nodes.len() >= 2 {
        return "document/only-front-matter".into();
    }

    // NUL: replaced by U+FFFD (3 bytes) before columns are counted
    {
        let top = if chain.len() >= 2 { chain[chain.len() - 2] } else { idx };
        let (a, b) = (p.nodes[top].sp.0.min(sp.0), p.nodes[top].sp.2.max(sp.2).max(sp.0));
        if line_span(&lines, a, b).iter().any(|l| l.contains('\0')) {
            return "nul-in-block".to_string();
        }
    }

    // open blocks two or more levels below a `>>>` block are never finalized when its closing fence arrives
    for (ci, &i) in chain.iter().enumerate() {
        if is_inline(p.nodes[i].kind) {
            continue;
        }
        for (cj, &j) in chain.iter().enumerate().skip(ci + 2) {
            let k = p.nodes[j].kind;
            if (k == "multiline_block_quote" || k == "alert") && cj >= ci + 2 {
                // the fence must actually be closed in the source: a line of `>>>` at or after the node
                let closed = lines.iter().skip(p.nodes[i].sp.0).any(|l| l.trim_start_matches(|c| c == ' ' || c == '>').is_empty() && l.contains(">>>"));
                if closed {
                    return "unfinalized-below-multiline-block-quote".to_string();
                }
            }
        }
    }

    if let Some(fi) = chain.iter().position(|&i| p.nodes[i].kind == "footnote_definition") {
        let f = &p.nodes[chain[fi]];
        let before = lines.iter().take(f.sp.0.saturating_sub(1)).filter(|l| l.contains(">>>")).count();
        let after = lines.iter().skip(f.sp.0).filter(|l| l.contains(">>>")).count();
        if before % 2 == 1 && after >= 1 {
            return "unfinalized-below-multiline-block-quote".to_string();
        }
    }

    // leading lines of the paragraph were consumed as link reference definitions
    for &i in &chain {
        let n = &p.nodes[i];
        if matches!(n.kind, "paragraph" | "heading" | "table") && starts_with_refdef(text_at(&lines, n.sp.0, n.sp.1)) {
            return "after-leading-reference-definition".to_string();
        }
        if n.kind == "table" {
            if let Some(ps) = prev_sibling(p, i) {
                let q = &p.nodes[ps];
                if q.kind == "paragraph" && starts_with_refdef(text_at(&lines, q.sp.0, q.sp.1)) {
                    return "after-leading-reference-definition".to_string();
                }
            }
        }
    }

    // thematic break inside a container that strips a prefix
    // (an indented `>>>` fence also strips up to `fence_offset` spaces from the lines of its content)
    if kind == "thematic_break" && kinds.iter().skip(1).any(|k| is_container(k) || *k == "multiline_block_quote") {
        return "thematic_break/inside-prefixed-container".into();
    }

    // thematic break that is the last block, followed only by blank lines up to the end of input
    if kind == "thematic_break" && sp.0 < lines.len() && lines[sp.0..].iter().all(|l| l.trim().is_empty()) {
        return "thematic_break/last-block-before-trailing-blank-lines".into();
    }

    // HTML block of types 1-5 whose end condition is met on its opening line
    if kinds.contains(&"html_block") {
        let hb = &p.nodes[chain[kinds.iter().position(|k| *k == "html_block").unwrap()]];
        let first = text_at(&lines, hb.sp.0, hb.sp.1).to_ascii_lowercase();
        let closed = match hb.html_type {
            1 => ["</script>", "</pre>", "</style>", "</textarea>"].iter().any(|e| first.contains(e)),
            2 => first.contains("-->"),
            3 => first.contains("?>"),
            4 => first.contains('>'),
            5 => first.contains("]]>"),
            _ => false,
        };
        if closed {
            return "html_block/types-1-5-closed-on-opening-line".into();
        }
    }

    // fenced code block / multi-line block quote closed because its container ended (not by its fence)
    for &i in &chain {
        let n = &p.nodes[i];
        let fenced = (n.kind == "code_block" && n.fenced)
            || n.kind == "multiline_block_quote"
            || (n.kind == "alert" && text_at(&lines, n.sp.0, n.sp.1).starts_with(">>>"));
        if fenced && n.sp.2 >= 1 && n.sp.2 <= lines.len() && n.sp.2 > n.sp.0 {
            let last = lines[n.sp.2 - 1].trim_start_matches(|c| c == ' ' || c == '>' || c == '\t');
            let open = text_at(&lines, n.sp.0, n.sp.1);
            let fc = open.chars().next().unwrap_or('`');
            let is_fence = last.starts_with(&fc.to_string().repeat(3)) || (fc == '>' && lines[n.sp.2 - 1].contains(">>>"));
            let cont = ancestors(p, i).into_iter().find(|&a| is_container(p.nodes[a].kind));
            let in_container = cont.is_some();
            // its container (whose end follows the general rule) stops on an earlier line
            let rcont = ancestors(p, i).into_iter().find(|&a| matches!(p.nodes[a].kind, "block_quote" | "footnote_definition" | "alert" | "multiline_block_quote"));
            let beyond = rcont.map_or(false, |a| p.nodes[a].sp.2 < n.sp.2);
            if in_container && (!is_fence || beyond) {
                return "fenced-block-closed-by-container-end".to_string();
            }
        }
    }

    // description lists are documented as unreliable; their paragraphs are re-parented without being finalized
    if kinds.iter().any(|k| k.starts_with("description_")) {
        return "inside-description-list".to_string();
    }

    // inline-level classes
    if is_inline(kind) {
        let blk = chain.iter().map(|&i| &p.nodes[i]).find(|n| !is_inline(n.kind));
        let sibs_prev = prev_sibling(p, idx).map(|j| &p.nodes[j]);
        // a text node with an empty literal (white space before a line break inside a link is trimmed to nothing)
        if kind == "text" && p.nodes[idx].lit_len == 0 {
            return "text/empty-literal".into();
        }
        if let Some(b) = blk {
            let blines = line_span(&lines, b.sp.0, b.sp.2.max(sp.2));
            // footnote reference label broken across lines
            for l in &blines {
                let mut rest: &str = l;
                while let Some(k) = rest.find("[^") {
                    let after = &rest[k + 2..];
                    let label_end = after.find(']');
                    if label_end.map_or(true, |e| !after[..e].chars().all(|c| c.is_ascii_alphanumeric() || c == '-' || c == '_')) {
                        return "footnote-label-not-plain-text".into();
                    }
                    rest = after;
                }
            }
            // multi-line code span / raw HTML / math that starts after the first line of its block, where
            // the lines of the block lose prefixes of different lengths
            let lit = |n: &NodeRec| matches!(n.kind, "code" | "html_inline" | "math") && n.sp.0 < n.sp.2;
            let mut cands: Vec<&NodeRec> = chain.iter().map(|&i| &p.nodes[i]).filter(|n| lit(n)).collect();
            if let Some(q) = sibs_prev {
                if lit(q) {
                    cands.push(q);
                }
            }
            // also literal spans among the descendants of the failing node (a parent's end can be dragged along)
            for (j, n) in p.nodes.iter().enumerate() {
                if lit(n) && ancestors(p, j).contains(&idx) {
                    cands.push(n);
                }
            }
            for c in cands {
                if c.sp.0 > b.sp.0 || true {
                    let pre = |ln: usize| -> usize {
                        if ln == b.sp.0 {
                            b.sp.1 - 1
                        } else if ln >= 1 && ln <= lines.len() {
                            lines[ln - 1].bytes().take_while(|c| *c == b' ' || *c == b'\t' || *c == b'>').count()
                        } else {
                            0
                        }
                    };
                    let first = pre(b.sp.0);
                    // (with a tab among those prefixes the columns are off for the tab's sake: the class below)
                    let tab_in_prefix = (b.sp.0..=c.sp.2.min(lines.len())).any(|l| l >= 1 && lines[l - 1].bytes().take_while(|c| *c == b' ' || *c == b'\t' || *c == b'>').any(|c| c == b'\t'));
                    if (b.sp.0..=c.sp.2.min(lines.len())).any(|l| pre(l) != first) && c.sp.0 > b.sp.0 && !tab_in_prefix {
                        return "multi-line-literal-span-uneven-prefixes".into();
                    }
                }
            }
        }
        // a wikilink / link / image of the same block that is broken across lines: the inline parser does not
        // advance its line, so the node itself and everything after it in the block is misplaced
        if let Some(b) = blk {
            let bi = chain.iter().copied().find(|&i| !is_inline(p.nodes[i].kind)).unwrap();
            let _ = b;
            for (j, n) in p.nodes.iter().enumerate() {
                if !ancestors(p, j).contains(&bi) {
                    continue;
                }
                if n.kind == "wikilink" && !text_at(&lines, n.sp.0, n.sp.1).contains("]]") {
                    return "wikilink-spans-lines".into();
                }
                if (n.kind == "link" || n.kind == "image") && link_tail_spans_lines(&lines, p, j) {
                    return "link-tail-spans-lines".into();
                }
            }
        }
    }

    // tables
    if let Some(ti) = chain.iter().position(|&i| p.nodes[i].kind == "table") {
        let t = &p.nodes[chain[ti]];
        // a row with an escaped pipe: `unescape_pipes` shortens the cell content, later columns shift
        if let Some(ri) = chain.iter().position(|&i| p.nodes[i].kind == "table_row") {
            let r = &p.nodes[chain[ri]];
            if r.sp.0 >= 1 && r.sp.0 <= lines.len() && lines[r.sp.0 - 1].contains("\\|") {
                return "table-row-with-escaped-pipe".to_string();
            }
        }
        // header row that continues paragraph text (the preface is split off into a paragraph of its own)
        if let Some(ps) = prev_sibling(p, chain[ti]) {
            let q = &p.nodes[ps];
            if q.kind == "paragraph" && q.sp.2 + 1 >= t.sp.0 {
                return "table-header-after-paragraph-lines".to_string();
            }
        }
        // cells
        if let Some(ci) = chain.iter().position(|&i| p.nodes[i].kind == "table_cell") {
            let c = &p.nodes[chain[ci]];
            if let Some(ps) = prev_sibling(p, chain[ci]) {
                let q = &p.nodes[ps];
                if c.nchildren == 0 && q.sp.3 == c.sp.1 && q.sp.2 == c.sp.0 {
                    return "autocompleted-table-cell".to_string();
                }
            }
            if c.nchildren == 0 && c.sp.0 == c.sp.2 && c.sp.1 == c.sp.3 + 1 {
                return "empty-table-cell".to_string();
            }
        }
        if let Some(ri) = chain.iter().position(|&i| p.nodes[i].kind == "table_row") {
            let r = &p.nodes[chain[ri]];
            if r.sp.0 != t.sp.0 && t.sp.0 >= 1 && t.sp.0 <= lines.len() && r.sp.0 <= lines.len() {
                let hl = lines[t.sp.0 - 1].as_bytes();
                let rl = lines[r.sp.0 - 1].as_bytes();
                let k = (t.sp.1 - 1).min(hl.len());
                let same = rl.len() >= k && rl[..k] == hl[..k] && rl.get(k).map_or(false, |c| *c != b' ' && *c != b'\t');
                if !same {
                    // rows and their cells are placed from the same origin (the table's start column): a cell
                    // that leaves its own row is not part of the listed shift
                    let lead = |l: &[u8]| l.iter().take_while(|c| **c == b' ' || **c == b'\t' || **c == b'>').any(|c| *c == b'\t');
                    let row_lead = rl.iter().take_while(|c| **c == b' ' || **c == b'\t' || **c == b'>').count();
                    // (a row that starts left of its header does lose cells beyond its end on the pinned tree)
                    if kind == "table_cell" && clause == "nested" && row_lead > k && !lead(hl) && !lead(rl) && !hl[..k].iter().any(|c| *c == b'\t') {
                        return "table-row-prefix-differs-from-header:cell-outside-a-row-indented-more-than-its-header".to_string();
                    }
                    return "table-row-prefix-differs-from-header".to_string();
                }
            }
        }
    }

    // a line of the enclosing leaf block (or table) starts with white space containing a tab
    {
        let b = chain.iter().map(|&i| &p.nodes[i]).find(|n| !is_inline(n.kind) && n.kind != "table_cell" && n.kind != "table_row");
        if let Some(b) = b {
            if b.kind != "document" {
                let tabbed = line_span(&lines, b.sp.0, b.sp.2.max(sp.2)).iter().any(|l| {
                    l.bytes().take_while(|c| *c == b' ' || *c == b'\t' || *c == b'>').any(|c| c == b'\t')
                });
                if tabbed {
                    // the recorded mechanism concerns lazy continuation lines and first lines; a later line of a
                    // paragraph that carries the prefix of every container it is in is measured on its own
                    let ln = sp.0;
                    let this_line_tabbed = ln >= 1 && ln <= lines.len() && lines[ln - 1].bytes().take_while(|c| *c == b' ' || *c == b'\t' || *c == b'>').any(|c| c == b'\t');
                    if b.kind == "paragraph" && ln > b.sp.0 && this_line_tabbed && has_container_prefix(p, &chain, &lines, ln) == Some(true) {
                        return "tab-in-line-prefix:continuation-line-with-its-container-prefix".to_string();
                    }
                    let containers_all = chain.iter().filter(|&&i| is_container(p.nodes[i].kind) || p.nodes[i].kind == "multiline_block_quote").count();
                    if kind == "code_block" && b.kind == "code_block" && containers_all == 0 {
                        return "tab-in-line-prefix:top-level-code-block-itself".to_string();
                    }
                    if b.kind == "table" {
                        let pre = |l: &str| l.bytes().take_while(|c| *c == b' ' || *c == b'\t' || *c == b'>').collect::<Vec<u8>>();
                        let tl = line_span(&lines, b.sp.0, b.sp.2.max(sp.2));
                        let containers = chain.iter().filter(|&&i| (is_container(p.nodes[i].kind) || p.nodes[i].kind == "multiline_block_quote") && !matches!(p.nodes[i].kind, "list" | "description_list")).count();
                        if containers == 1 && tl.len() >= 2 && tl.iter().all(|l| pre(l) == pre(tl[0])) {
                            return "tab-in-line-prefix:table-lines-share-one-prefix".to_string();
                        }
                    }
                    return "tab-in-line-prefix".to_string();
                }
            }
        }
    }

    format!("{}/plain", kind)
}

// ---------------------------------------------------------------------------------------------
// S stage

fn parse_fail(resp: &str) -> Option<(String, String, (usize, usize, usize, usize))> {
    // clause:kind:sl:sc-el:ec
    let parts: Vec<&str> = resp.split(':').collect();
    if parts.len() != 5 {
        return None;
    }
    let mid: Vec<&str> = parts[3].split('-').collect();
    if mid.len() != 2 {
        return None;
    }
    Some((
        parts[0].to_string(),
        parts[1].to_string(),
        (parts[2].parse().ok()?, mid[0].parse().ok()?, mid[1].parse().ok()?, parts[4].parse().ok()?),
    ))
}

pub fn push_case<'a>(bt: &mut Batch<'a>, rep: &mut Report, which: Which, o: Opts, md: String, genname: &'static str) {
    let input = doc_input(&o, &md);
    match parse(&md, &o) {
        Err(_) => {
            // parser panics are C01's subject (lead's coordination note): counted, not judged here
            let _ = (&input, which);
            rep.count("skipped-parser-panic");
        }
        Ok(p) => {
            rep.count(&format!("gen-{}", genname));
            rep.add("nodes", p.nodes.len() as u64);
            let kinds: Vec<&'static str> = p.nodes.iter().map(|n| n.kind).collect();
            if kinds.len() > 2 {
                rep.nontrivial(&(kinds.clone(), o.bits.clone()));
            }
            for k in &kinds {
                rep.count(&format!("kind-{}", k));
            }
            if p.nodes.iter().any(|n| n.sp.0 != n.sp.2 && is_inline(n.kind)) {
                rep.count("docs-with-multi-line-inline");
            }
            if md.contains('\t') {
                rep.count("docs-with-tab");
            }
            if !md.is_ascii() {
                rep.count("docs-with-multibyte");
            }
            let cmd = if which == Which::C11 { "spcheck11" } else { "spcheck12" };
            let req = format!("{} {} {}", cmd, hex(md.as_bytes()), p.wire);
            bt.push(req, move |resp, rep| {
                rep.s_evals += 1;
                match judge(which, &o, &md, &p, resp) {
                    Ok(None) => {}
                    Err(e) => rep.disagree("driver", input, e),
                    Ok(Some((ck, class, detail))) => {
                        // A failure that matches no listed construct is shrunk first (lines, then characters,
                        // keeping the failing clause) and classified on the minimal document.
                        if class.ends_with("/plain") && SHRUNK.fetch_add(1, std::sync::atomic::Ordering::Relaxed) < 40 {
                            let small = shrink(which, &o, &md, &ck, None);
                            if let Ok(p2) = parse(&small, &o) {
                                if let Some(Some((ck2, class2))) = eval_many(which, &o, &[small.clone()]).into_iter().next() {
                                    if ck2 == ck {
                                        let _ = p2;
                                        rep.count("shrunk-before-classification");
                                        rep.fail(&ck2, &class2, doc_input(&o, &small), format!("shrunk to {:?} opts [{}]; original: {}", show(small.as_bytes()), o.describe(), detail));
                                        return;
                                    }
                                }
                            }
                        }
                        rep.fail(&ck, &class, input, detail)
                    }
                }
            });
        }
    }
}

static SHRUNK: std::sync::atomic::AtomicUsize = std::sync::atomic::AtomicUsize::new(0);

/// Turns the oracle's answer into `(clause kind, sig, detail)`.
pub fn judge(which: Which, o: &Opts, md: &str, p: &Parsed, resp: &str) -> Result<Option<(String, String, String)>, String> {
    if resp == "ok" {
        return Ok(None);
    }
    match parse_fail(resp) {
        None => Err(format!("unparsable oracle answer {}", resp)),
        Some((clause, kind, sp)) => {
            let class = classify(md, o, p, &clause, &kind, sp);
            let merged = match clause.as_str() {
                "line-range" | "start-col" | "end-col" | "start-after-end" => "in-range",
                c => c,
            };
            let merged = if which == Which::C12 { if merged == "text-literal" { "text" } else { "delims" } } else { merged };
            let ck = format!("{}-{}", if which == Which::C11 { "sp" } else { "slice" }, merged);
            Ok(Some((
                ck,
                class,
                format!("{} node at {}:{}-{}:{} fails clause {} in {:?} opts [{}]", kind, sp.0, sp.1, sp.2, sp.3, clause, show(md.as_bytes()), o.describe()),
            )))
        }
    }
}

/// Evaluates many documents under one option vector: `(clause kind, sig)` of the first failure of each.
pub fn eval_many(which: Which, o: &Opts, docs: &[String]) -> Vec<Option<(String, String)>> {
    let m = Model::from_env();
    let out: std::rc::Rc<std::cell::RefCell<Vec<Option<(String, String)>>>> = std::rc::Rc::new(std::cell::RefCell::new(vec![None; docs.len()]));
    let mut rep = Report::new("shrink");
    let mut bt = Batch::new();
    let cmd = if which == Which::C11 { "spcheck11" } else { "spcheck12" };
    for (i, d) in docs.iter().enumerate() {
        if let Ok(p) = parse(d, o) {
            let req = format!("{} {} {}", cmd, hex(d.as_bytes()), p.wire);
            let out = out.clone();
            let (o, d) = (o.clone(), d.clone());
            bt.push(req, move |resp, _rep| {
                if let Ok(Some((ck, class, _))) = judge(which, &o, &d, &p, resp) {
                    out.borrow_mut()[i] = Some((ck, class));
                }
            });
        }
    }
    bt.run(&m, &mut rep);
    let v = out.borrow().clone();
    v
}

/// Greedy shrink (whole lines, then single characters) preserving the failing clause and class.
pub fn shrink(which: Which, o: &Opts, md: &str, kind: &str, sig: Option<&str>) -> String {
    let mut cur = md.to_string();
    for _round in 0..60 {
        let mut cands: Vec<String> = vec![];
        // delete one line (with its terminator)
        let mut starts = vec![0usize];
        for (i, ch) in cur.char_indices() {
            if ch == '\n' || (ch == '\r' && !cur[i + 1..].starts_with('\n')) {
                starts.push(i + 1);
            }
        }
        starts.push(cur.len());
        starts.dedup();
        for w in starts.windows(2) {
            if w[0] < w[1] {
                cands.push(format!("{}{}", &cur[..w[0]], &cur[w[1]..]));
            }
        }
        let nline = cands.len();
        // delete one character / a run of 4 characters
        if cur.len() <= 400 {
            let idxs: Vec<usize> = cur.char_indices().map(|(i, _)| i).chain(std::iter::once(cur.len())).collect();
            for k in [4usize, 1] {
                for w in 0..idxs.len().saturating_sub(k) {
                    cands.push(format!("{}{}", &cur[..idxs[w]], &cur[idxs[w + k]..]));
                }
            }
        }
        if cands.is_empty() {
            break;
        }
        let res = eval_many(which, o, &cands);
        let mut pick = None;
        for (i, r) in res.iter().enumerate() {
            if let Some((k, s)) = r {
                if k == kind && sig.map_or(true, |x| x == s) {
                    pick = Some(i);
                    if i < nline {
                        break;
                    }
                    break;
                }
            }
        }
        match pick {
            Some(i) => cur = cands[i].clone(),
            None => break,
        }
    }
    cur
}

pub fn corpus_docs() -> Vec<&'static str> {
    vec![
        "",
        "a",
        "hello *world* between *wo\nrld* after",
        "stuff before  \nstuff after\n\nstuff before\\\nstuff after\n",
        "> hello world\n> this is line 1\n\nhello world",
        "| Hello | World |\n| ----- | ----- |\n| cell1 | cell02 |\n\nhello world\n",
        "hello <img\n    src=\"foo\"\n    alt=\"bar\"> world\n",
        "- item 1[^1]\n- item 2 **bold**\n\n[^1]: The end.\n",
        "a\r\nb *c\r\nd* e\r\n",
        "> - a `b\n>   c` d\n> - [x](/u\n>   \"t\")\n",
        "# é 世界 #\n\ntext\twith\ttab\n===\n",
    ]
}

/// K: the real `Spx::consume` (hook `comrak::verif::spx_consume`) against the Lean model `spxConsume`,
/// one step at a time, panics (assertion / unreachable) against the model's `none`.
fn spx_k(cfg: &Cfg, rep: &mut Report, m: &Model) {
    let mut rng = Rng::new(cfg.seed ^ 0x5B7);
    let n = if cfg.tier_thorough { 60_000 } else { 6_000 };
    let mut bt = Batch::new();
    for i in 0..n {
        let nseg = rng.range(1, 4);
        let mut col = rng.range(1, 9);
        let line = rng.range(1, 5);
        let mut segs: Vec<((usize, usize, usize, usize), usize)> = vec![];
        for _ in 0..nseg {
            let lo = if rng.chance(1, 8) { 0 } else { 1 };
            let x = rng.range(lo, 6);
            // mostly exact spans (what make_inline gives verbatim runs), sometimes a span that is longer or
            // shorter than its byte count (entities, smart punctuation)
            let width = if rng.chance(1, 5) { rng.range(1, 8) } else { x.max(1) };
            segs.push(((line, col, line, col + width - 1), x));
            col += width + rng.below(2);
        }
        let total: usize = segs.iter().map(|s| s.1).sum();
        let rem = rng.range(0, total + 1);
        let q: Vec<String> = segs.iter().map(|(sp, x)| format!("{}:{}:{}:{}:{}", sp.0, sp.1, sp.2, sp.3, x)).collect();
        let req = format!("spx {} {}", rem, q.join(","));
        let real = match catch_unwind(AssertUnwindSafe(|| comrak::verif::spx_consume(&segs, &[rem]))) {
            Err(_) => "PANIC".to_string(),
            Ok((res, left)) => {
                let l: Vec<String> = left.iter().map(|(sp, x)| format!("{}:{}:{}:{}:{}", sp.0, sp.1, sp.2, sp.3, x)).collect();
                format!("{} {}", res[0], if l.is_empty() { "-".to_string() } else { l.join(",") })
            }
        };
        rep.count(if real == "PANIC" { "spx-case-panics" } else { "spx-case-returns" });
        if i < 2 {
            rep.sample(format!("{} -> {}", req, real));
        }
        let r2 = req.clone();
        bt.push(req, move |resp, rep| {
            rep.k_evals += 1;
            if resp != real {
                rep.disagree("spx-consume", r2, format!("real={} model={}", real, resp));
            }
        });
    }
    bt.run(m, rep);
}

pub fn run(which: Which, cfg: &Cfg, rep: &mut Report) {
    let m = Model::from_env();
    if which == Which::C11 {
        spx_k(cfg, rep, &m);
    }
    let tag = if which == Which::C11 { 0xC11 } else { 0xC12 };
    let mut rng = Rng::new(cfg.seed ^ tag);
    rep.rule = "documents from the position grammar (words over ASCII + 2/3/4-byte characters + tabs; emphasis, strong, code spans, links, images, autolinks, footnote references, escapes, entities and hard/soft breaks, nested and spanning lines; paragraphs, ATX/setext headings, thematic breaks, fenced/indented code, HTML blocks, footnote definitions, reference definitions, tables, alerts, multi-line block quotes inside block quotes and lists up to depth 3 with partial prefixes and lazy continuation lines) with LF / CRLF / CR / mixed line endings x Opts::random; every node of the real tree is judged by the Lean oracles; distinct_nontrivial counts distinct (node-kind sequence, option bits) classes".into();
    let n = if cfg.tier_thorough { 600_000 } else { 100_000 };
    let mut done = 0;
    // fixed corpus first
    let mut bt = Batch::new();
    for d in corpus_docs() {
        for o in [Opts::default(), Opts::all_extensions()] {
            push_case(&mut bt, rep, which, o, d.to_string(), "corpus");
        }
    }
    bt.run(&m, rep);
    while done < n {
        let mut bt = Batch::new();
        let chunk = 4000.min(n - done);
        for _ in 0..chunk {
            let steer = !rng.chance(1, 8);
            let g = GenCfg { nul: which == Which::C11 && !steer && rng.chance(1, 4), steer };
            let (md, le) = gen_doc(&mut rng, &g);
            let mut o = match rng.below(4) {
                0 => Opts::all_extensions(),
                1 => Opts::default(),
                _ => Opts::random(&mut rng),
            };
            if which == Which::C12 && rng.chance(2, 3) {
                o.set("smart", false);
            }
            if rep.samples.len() < 4 && done % 997 == 3 {
                rep.sample(format!("doc {:?} opts [{}]", show(md.as_bytes()), o.describe()));
            }
            rep.count(&format!("line-endings-{}", le));
            rep.count(if steer { "stream-steered" } else { "stream-unsteered" });
            push_case(&mut bt, rep, which, o, md, "grammar");
            done += 1;
        }
        bt.run(&m, rep);
    }
}

pub fn replay(which: Which, kind: &str, input: &str) -> Result<Option<String>, String> {
    let (o, md) = parse_doc_input(input).ok_or("bad replay input")?;
    if kind == "dump" {
        let p = parse(&md, &o)?;
        let mut out = String::new();
        for (i, n) in p.nodes.iter().enumerate() {
            let depth = ancestors(&p, i).len();
            out.push_str(&format!("\n{}{} {}:{}-{}:{}", "  ".repeat(depth), n.kind, n.sp.0, n.sp.1, n.sp.2, n.sp.3));
        }
        return Ok(Some(out));
    }
    if let Some(rest) = kind.strip_prefix("shrink:") {
        // development aid: `cvh replay C11 shrink:<kind>|<sig> <input>` prints the shrunk document
        let (k, sg) = rest.split_once('|').ok_or("shrink:<kind>|<sig>")?;
        let small = shrink(which, &o, &md, k, if sg.is_empty() { None } else { Some(sg) });
        return Ok(Some(format!("shrunk to {:?} :: {}", small, doc_input(&o, &small))));
    }
    let m = Model::from_env();
    let mut rep = Report::new(if which == Which::C11 { "C11" } else { "C12" });
    let mut bt = Batch::new();
    push_case(&mut bt, &mut rep, which, o, md, "replay");
    bt.run(&m, &mut rep);
    for c in rep.s_fail.iter().chain(rep.k_disagree.iter()) {
        if kind.is_empty() || c.kind == kind {
            return Ok(Some(format!("{} [{}]: {}", c.kind, c.sig, c.detail)));
        }
    }
    Ok(None)
}
