//! C02: safe-by-default HTML. K: shared renderer correspondence with unsafe_ = false.
//! S: the Lean byte-level oracle `safeBytes` (lexes as comrak's own markup, fixed tag/attribute
//! vocabulary, escaped values and text, only the placeholder comment, no dangerous destination)
//! on the REAL output.
use crate::gen::Corpus;
use crate::htmlk::{gen_case, push_html_k, Src};
use crate::model::{Batch, Model};
use crate::opts::Opts;
use crate::report::Report;
use crate::rng::Rng;
use crate::util::{hex, show};
use crate::Cfg;

pub fn push_case<'a>(bt: &mut Batch<'a>, rep: &mut Report, o: Opts, src: Src, name: &'static str) {
    let input = src.input(&o);
    if let Some(r) = push_html_k(bt, rep, &o, &src, name) {
        // Raw nodes are written verbatim under every option; the parser never produces them and
        // the property is about documents, so trees holding one are outside the quantifier.
        if r.kinds.iter().any(|k| *k == "raw") {
            rep.count("skipped-oracle-raw-node");
            return;
        }
        if r.has_raw_html {
            rep.count("with-raw-html-nodes");
        }
        let i0 = input.clone();
        bt.push(format!("treesafe {}", r.tree_wire), move |resp, rep| {
            rep.k_evals += 1;
            if resp != "1" {
                rep.disagree("theorem-hypothesis-treeSafe", i0, "the tree does not satisfy treeSafe (no Raw node, harmless EscapedTag payload, heading level 1-6), the hypothesis of html_safe".into());
            }
        });
        let h = r.html;
        bt.push(format!("htmlsafe {}", hex(&h)), move |resp, rep| {
            rep.s_evals += 1;
            if resp != "1" {
                let sig = resp.split(':').next().unwrap_or("").to_string();
                rep.fail("html-safe", &sig, input, format!("{} in {}", resp, show(&h)));
            }
        });
    }
}

pub fn run(cfg: &Cfg, rep: &mut Report) {
    let m = Model::from_env();
    let mut rng = Rng::new(cfg.seed ^ 0xC02);
    let corpus = Corpus::load();
    rep.rule = "documents (grammar with hostile payloads in info strings, titles, alt text, footnote names, alert titles, math, labels, cells, autolinks, wikilinks, reference definitions; palette; bytes; corpus) and directly built trees without Raw nodes x random option vectors with unsafe_ = false; distinct_nontrivial counts distinct (node-kind sequence, option bits) classes".into();
    let n = if cfg.tier_thorough { 150_000 } else if cfg.full { 40_000 } else { 24_000 };
    let mut done = 0;
    while done < n {
        let mut bt = Batch::new();
        for _ in 0..3000.min(n - done) {
            let (src, name) = gen_case(&mut rng, &corpus);
            let mut o = Opts::random(&mut rng);
            o.set("unsafe_", false);
            if done < 3 {
                rep.sample(format!("{} opts [{}]", src.show(), o.describe()));
            }
            push_case(&mut bt, rep, o, src, name);
            done += 1;
        }
        bt.run(&m, rep);
    }
    // directed: all case spellings of the dangerous schemes in every destination position
    let mut bt = Batch::new();
    for (i, d) in scheme_case_docs().into_iter().enumerate() {
        let mut o = Opts::default();
        o.set("wikilinks_title_after_pipe", true).set("autolink", i % 2 == 0);
        rep.count("scheme-case-documents");
        push_case(&mut bt, rep, o, Src::Doc(d), "scheme-case");
        if bt.len() > 3000 {
            let b = std::mem::replace(&mut bt, Batch::new());
            b.run(&m, rep);
        }
    }
    bt.run(&m, rep);
}

/// Every letter-case spelling of the four dangerous schemes (2^10 + 2^8 + 2^4 + 2^4 masks), each as the
/// destination of a link, an image, an angle autolink, a wikilink and a reference definition.
fn scheme_case_docs() -> Vec<String> {
    let mut v = vec![];
    for (scheme, rest) in [("javascript", ":alert(1)"), ("vbscript", ":msgbox(1)"), ("file", ":///etc/passwd"), ("data", ":text/html,x")] {
        let letters: Vec<char> = scheme.chars().collect();
        for mask in 0u32..(1 << letters.len()) {
            let sp: String = letters.iter().enumerate().map(|(i, c)| if mask >> i & 1 == 1 { c.to_ascii_uppercase() } else { *c }).collect();
            let u = format!("{}{}", sp, rest);
            // the five positions in one document: one render covers them all
            v.push(format!("[x]({u}) ![y]({u}) <{u}> [[{u}|t]] [r]\n\n[r]: {u}\n", u = u));
        }
    }
    v
}

pub fn replay(kind: &str, input: &str) -> Result<Option<String>, String> {
    let (o, src) = Src::parse_input(input).ok_or("bad replay input")?;
    let m = Model::from_env();
    let mut rep = Report::new("C02");
    let mut bt = Batch::new();
    push_case(&mut bt, &mut rep, o, src, "replay");
    bt.run(&m, &mut rep);
    for c in rep.s_fail.iter().chain(rep.k_disagree.iter()) {
        if kind.is_empty() || c.kind == kind {
            return Ok(Some(format!("{}: {}", c.kind, c.detail)));
        }
    }
    Ok(None)
}
