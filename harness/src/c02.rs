//! C02: safe-by-default HTML. K: shared renderer correspondence with unsafe_ = false.
//! S: the Lean byte-level oracle `safeBytes` (lexes as comrak's own markup, fixed tag/attribute
//! vocabulary, escaped values and text, only the placeholder comment, no dangerous destination)
//! on the REAL output.
use crate::gen::Corpus;
use crate::htmlk::{gen_case, push_html_k, Src};
use crate::model::{Batch, Model};
use crate::opts::Opts;
use crate::report::Report;
use crate::rng::Rng;
use crate::util::{hex, show};
use crate::Cfg;

pub fn push_case<'a>(bt: &mut Batch<'a>, rep: &mut Report, o: Opts, src: Src, name: &'static str) {
    let input = src.input(&o);
    if let Some(r) = push_html_k(bt, rep, &o, &src, name) {
        // Raw nodes are written verbatim under every option; the parser never produces them and
        // the property is about documents, so trees holding one are outside the quantifier.
        if r.kinds.iter().any(|k| *k == "raw") {
            rep.count("skipped-oracle-raw-node");
            return;
        }
        if r.has_raw_html {
            rep.count("with-raw-html-nodes");
        }
        let i0 = input.clone();
        bt.push(format!("treesafe {}", r.tree_wire), move |resp, rep| {
            rep.k_evals += 1;
            if resp != "1" {
                rep.disagree("theorem-hypothesis-treeSafe", i0, "the tree does not satisfy treeSafe (no Raw node, harmless EscapedTag payload, heading level 1-6), the hypothesis of html_safe".into());
            }
        });
        let h = r.html;
        bt.push(format!("htmlsafe {}", hex(&h)), move |resp, rep| {
            rep.s_evals += 1;
            if resp != "1" {
                let sig = resp.split(':').next().unwrap_or("").to_string();
                rep.fail("html-safe", &sig, input, format!("{} in {}", resp, show(&h)));
            }
        });
    }
}

pub fn run(cfg: &Cfg, rep: &mut Report) {
    let m = Model::from_env();
    let mut rng = Rng::new(cfg.seed ^ 0xC02);
    let corpus = Corpus::load();
    rep.rule = "documents (grammar with hostile payloads in info strings, titles, alt text, footnote names, alert titles, math, labels, cells, autolinks, wikilinks, reference definitions; palette; bytes; corpus) and directly built trees without Raw nodes x random option vectors with unsafe_ = false; distinct_nontrivial counts distinct (node-kind sequence, option bits) classes".into();
    let n = if cfg.tier_thorough { 150_000 } else if cfg.full { 40_000 } else { 24_000 };
    let mut done = 0;
    while done < n {
        let mut bt = Batch::new();
        for _ in 0..3000.min(n - done) {
            let (src, name) = gen_case(&mut rng, &corpus);
            let mut o = Opts::random(&mut rng);
            o.set("unsafe_", false);
            if done < 3 {
                rep.sample(format!("{} opts [{}]", src.show(), o.describe()));
            }
            push_case(&mut bt, rep, o, src, name);
            done += 1;
        }
        bt.run(&m, rep);
    }
}

pub fn replay(kind: &str, input: &str) -> Result<Option<String>, String> {
    let (o, src) = Src::parse_input(input).ok_or("bad replay input")?;
    let m = Model::from_env();
    let mut rep = Report::new("C02");
    let mut bt = Batch::new();
    push_case(&mut bt, &mut rep, o, src, "replay");
    bt.run(&m, &mut rep);
    for c in rep.s_fail.iter().chain(rep.k_disagree.iter()) {
        if kind.is_empty() || c.kind == kind {
            return Ok(Some(format!("{}: {}", c.kind, c.detail)));
        }
    }
    Ok(None)
}
