//! C08: output is invariant under line-ending style, final newline, NUL and BOM.
//! K: the `process_line` calls of the real parser (line tap hook: argument, line after the
//!    sentinel, offset after the BOM skip, line number) vs the Lean model (`parseLines`, `preludes`),
//!    exhaustively over short strings on {a, space, \n, \r, NUL, BOM} and on random longer documents.
//! S: relational oracle on the real code: markdown_to_html(x) vs markdown_to_html(T x) for the
//!    rewrites LF->CRLF, LF->CR, add final newline, NUL->U+FFFD, prepend BOM (plus "any mix of line
//!    endings -> LF"), documents x random option vectors, sourcepos off.
use crate::gen::{mixed_doc, Corpus};
use crate::model::{Batch, Model};
use crate::opts::Opts;
use crate::report::Report;
use crate::rng::Rng;
use crate::util::{diff_window, hex, show, unhex};
use crate::Cfg;
use comrak::verif_parser_hooks::{tap_reset, tap_take, LineTap};
use comrak::{markdown_to_html, parse_document, Arena};
use std::panic::{catch_unwind, AssertUnwindSafe};

pub const BOM: &str = "\u{feff}";
pub const KINDS: &[&str] = &["crlf", "cr", "final-newline", "nul", "bom", "normalise-mixed"];

// ------------------------------------------------------------------ K: line tap vs model

pub fn real_tap(doc: &str, o: &Opts) -> Result<Vec<LineTap>, String> {
    let c = o.to_comrak();
    let r = catch_unwind(AssertUnwindSafe(|| {
        tap_reset();
        let arena = Arena::new();
        let _ = parse_document(&arena, doc, &c);
        tap_take()
    }));
    if r.is_err() {
        let _ = tap_take();
    }
    r.map_err(|_| "PANIC in parse_document".to_string())
}

pub fn fmt_lines(ls: &[&[u8]]) -> String {
    if ls.is_empty() {
        return "0".to_string();
    }
    format!("{} {}", ls.len(), ls.iter().map(|l| hex(l)).collect::<Vec<_>>().join(","))
}

pub fn fmt_preludes(t: &[LineTap]) -> String {
    if t.is_empty() {
        return "0".to_string();
    }
    format!("{} {}", t.len(), t.iter().map(|l| format!("{}:{}:{}", hex(&l.line), l.offset, l.line_number)).collect::<Vec<_>>().join(","))
}

/// One K case: front matter off, so the whole text goes through the splitter.
fn push_tap<'a>(bt: &mut Batch<'a>, rep: &mut Report, doc: &str) {
    let o = Opts::default();
    let input = format!("tap {}", hex(doc.as_bytes()));
    match real_tap(doc, &o) {
        // parser panics are C01's subject: counted, not reported here
        Err(_) => rep.count("skipped-parser-panic"),
        Ok(t) => {
            let args: Vec<&[u8]> = t.iter().map(|l| l.arg.as_slice()).collect();
            let want_lines = fmt_lines(&args);
            let want_prel = fmt_preludes(&t);
            if t.len() > 1 || t.iter().any(|l| l.arg.len() + 1 != l.line.len() || l.offset != 0) {
                rep.nontrivial(&want_prel);
            }
            if t.first().map(|l| l.offset == 3).unwrap_or(false) {
                rep.count("k-first-line-bom-skipped");
            }
            let (i1, i2) = (input.clone(), input);
            bt.push(format!("lines {}", hex(doc.as_bytes())), move |resp, rep| {
                rep.k_evals += 1;
                if resp != want_lines {
                    rep.disagree("process-line-args", i1, format!("real process_line arguments = {} but model lines = {}", want_lines, resp));
                }
            });
            bt.push(format!("prel 0 {}", hex(doc.as_bytes())), move |resp, rep| {
                rep.k_evals += 1;
                if resp != want_prel {
                    rep.disagree("process-line-prelude", i2, format!("real (line:offset:line_number) = {} but model = {}", want_prel, resp));
                }
            });
        }
    }
}

/// Random line-ending style, NUL and BOM noise on top of a generated document.
pub fn noise(r: &mut Rng, doc: &str) -> String {
    let style = r.below(5); // 0 keep, 1 crlf, 2 cr, 3/4 mixed
    let mut s = String::with_capacity(doc.len() + 16);
    if r.chance(1, 8) {
        s.push_str(BOM);
    }
    for ch in doc.chars() {
        if ch == '\n' {
            match style {
                0 => s.push('\n'),
                1 => s.push_str("\r\n"),
                2 => s.push('\r'),
                _ => s.push_str(r.ps(&["\n", "\r\n", "\r", "\n"])),
            }
        } else {
            s.push(ch);
        }
        if r.chance(1, 60) {
            s.push_str(r.ps(&["\0", "\0", BOM, "\r", "\u{fffd}"]));
        }
    }
    if r.chance(1, 4) {
        while s.ends_with('\n') || s.ends_with('\r') {
            s.pop();
        }
    }
    s
}

// ------------------------------------------------------------------ S: the rewrites

fn to_lf(x: &str) -> String {
    x.replace("\r\n", "\n").replace('\r', "\n")
}

/// The rewritten text, or None when `x` is outside the rewrite's domain.
pub fn rewrite(kind: &str, x: &str) -> Option<String> {
    match kind {
        "crlf" => (!x.contains('\r')).then(|| x.replace('\n', "\r\n")),
        "cr" => (!x.contains('\r')).then(|| x.replace('\n', "\r")),
        "final-newline" => (!x.ends_with('\n') && !x.ends_with('\r')).then(|| format!("{}\n", x)),
        "nul" => x.contains('\0').then(|| x.replace('\0', "\u{fffd}")),
        "bom" => (!x.starts_with(BOM)).then(|| format!("{}{}", BOM, x)),
        "normalise-mixed" => x.contains('\r').then(|| to_lf(x)),
        _ => None,
    }
}

fn html(x: &str, o: &Opts) -> Result<String, String> {
    let c = o.to_comrak();
    catch_unwind(AssertUnwindSafe(|| markdown_to_html(x, &c))).map_err(|_| "PANIC in markdown_to_html".to_string())
}

/// Syntactic class of a failing pair, used to match known findings. (The class
/// "front-matter-cr-only-line-endings" is gone: since /repo commits d92265f and ef24343 the
/// front-matter splitter and the line count after it read lines ended by LF, CRLF or CR, so a
/// failure on such a text is a violation.)
fn classify(_kind: &str, _o: &Opts, x: &str, tx: &str) -> &'static str {
    if x.len().max(tx.len()) > 100_000 && x.contains("]:") {
        return "reference-budget-depends-on-raw-size";
    }
    "doc"
}

/// Evaluates one relation. Ok(None): holds (or outside the domain); Ok(Some(detail)): fails.
pub fn check_rel(kind: &str, o: &Opts, x: &str) -> Result<Option<(String, bool)>, String> {
    let tx = match rewrite(kind, x) {
        Some(t) => t,
        None => return Ok(None),
    };
    // a panic on both sides is C01's subject; a panic on one side only is a difference the rewrite made
    let (a, b) = match (html(x, o), html(&tx, o)) {
        (Ok(a), Ok(b)) => (a, b),
        (Err(e), Err(_)) => return Err(e),
        (Ok(_), Err(_)) => return Ok(Some((format!("html(x) renders, html({}(x)) panics", kind), false))),
        (Err(_), Ok(_)) => return Ok(Some((format!("html(x) panics, html({}(x)) renders", kind), false))),
    };
    let identical = a == b;
    let ok = match kind {
        // the HTML may differ only by the same rewrite inside literal content
        "crlf" | "cr" | "normalise-mixed" => identical || to_lf(&a) == to_lf(&b),
        _ => identical,
    };
    if ok {
        Ok(Some((String::new(), identical)))
    } else {
        Ok(Some((format!("html(x) vs html({}(x)): {}", kind, diff_window(a.as_bytes(), b.as_bytes())), identical)))
    }
}

fn fails(kind: &str, o: &Opts, x: &str) -> bool {
    match check_rel(kind, o, x) {
        Ok(Some((d, _))) => !d.is_empty(),
        Ok(None) => false,
        Err(_) => true,
    }
}

/// Line-wise, then character-wise shrinking that preserves the failing relation.
fn shrink(kind: &str, o: &Opts, x: &str) -> String {
    if x.len() > 20_000 {
        return x.to_string();
    }
    let mut cur: String = x.to_string();
    let mut budget = 3000usize;
    // lines
    loop {
        let parts: Vec<&str> = cur.split_inclusive('\n').collect();
        let mut improved = false;
        for i in 0..parts.len() {
            if budget == 0 {
                break;
            }
            budget -= 1;
            let cand: String = parts.iter().enumerate().filter(|(j, _)| *j != i).map(|(_, p)| *p).collect();
            if fails(kind, o, &cand) {
                cur = cand;
                improved = true;
                break;
            }
        }
        if !improved || budget == 0 {
            break;
        }
    }
    // characters
    loop {
        let chars: Vec<char> = cur.chars().collect();
        let mut improved = false;
        for i in 0..chars.len() {
            if budget == 0 {
                break;
            }
            budget -= 1;
            let cand: String = chars.iter().enumerate().filter(|(j, _)| *j != i).map(|(_, c)| *c).collect();
            if fails(kind, o, &cand) {
                cur = cand;
                improved = true;
                break;
            }
        }
        if !improved || budget == 0 {
            break;
        }
    }
    cur
}

fn rel_input(kind: &str, o: &Opts, x: &str) -> String {
    format!("rw {} {} {}", kind, o.wire(), hex(x.as_bytes()))
}

fn run_rel(rep: &mut Report, kind: &str, o: &Opts, x: &str, do_shrink: bool) {
    match check_rel(kind, o, x) {
        Ok(None) => rep.count(&format!("s-{}-outside-domain", kind)),
        Ok(Some((d, identical))) => {
            rep.s_evals += 1;
            rep.count(&format!("s-{}", kind));
            if identical {
                rep.count(&format!("s-{}-byte-identical", kind));
            }
            if !d.is_empty() {
                let small = if do_shrink { shrink(kind, o, x) } else { x.to_string() };
                let tx = rewrite(kind, &small).unwrap_or_default();
                let sig = classify(kind, o, &small, &tx);
                let detail = match check_rel(kind, o, &small) {
                    Ok(Some((d2, _))) if !d2.is_empty() => d2,
                    _ => d,
                };
                rep.fail(kind, sig, rel_input(kind, o, &small), format!("x = {:?} opts [{}]: {}", show(small.as_bytes()), o.describe(), detail));
            }
        }
        // parser/renderer panics are C01's subject: counted, not reported here
        Err(_) => rep.count("skipped-parser-panic"),
    }
}

/// All relations on one generated document.
fn run_doc(rep: &mut Report, r: &mut Rng, o: &Opts, doc: &str) {
    // LF form for the uniform rewrites
    let x0 = to_lf(doc);
    run_rel(rep, "crlf", o, &x0, true);
    run_rel(rep, "cr", o, &x0, true);
    // final newline: on the text without its trailing line ends
    let xs = doc.trim_end_matches(|c| c == '\n' || c == '\r');
    run_rel(rep, "final-newline", o, xs, true);
    // the rewrites that move no byte to another line or column are also compared with source
    // positions in the output (BOM and NUL -> U+FFFD change byte columns and are not)
    if r.chance(1, 3) {
        let osp = o.clone().with("sourcepos", true);
        rep.count("s-with-sourcepos");
        run_rel(rep, "crlf", &osp, &x0, true);
        run_rel(rep, "cr", &osp, &x0, true);
        run_rel(rep, "final-newline", &osp, xs, true);
    }
    // NUL: make sure there is one
    let xn = if doc.contains('\0') {
        doc.to_string()
    } else {
        let chars: Vec<char> = doc.chars().collect();
        let mut s = String::new();
        let k = r.range(1, 3);
        let pos: Vec<usize> = (0..k).map(|_| r.below(chars.len() + 1)).collect();
        for (i, c) in chars.iter().enumerate() {
            if pos.contains(&i) {
                s.push('\0');
            }
            s.push(*c);
        }
        if pos.contains(&chars.len()) {
            s.push('\0');
        }
        s
    };
    run_rel(rep, "nul", o, &xn, true);
    // BOM
    run_rel(rep, "bom", o, doc, true);
    // mixed endings -> LF; an extra beyond the statement. Front matter stays on: since /repo commit
    // d92265f the splitter takes the first closing line whatever the line endings are (Lean:
    // C20.front_matter_any_line_endings)
    let xm = if doc.contains('\r') { doc.to_string() } else { noise(r, doc) };
    run_rel(rep, "normalise-mixed", o, &xm, true);
}

/// The reference-expansion budget is `max(total_size, 100000)` with `total_size` the raw byte
/// count: `[a]: /uuuu` then `nrefs` lines `[a]`.
fn budget_doc(urllen: usize, nrefs: usize) -> String {
    let mut s = format!("[a]: /{}\n\n", "u".repeat(urllen.saturating_sub(1)));
    for _ in 0..nrefs {
        s.push_str("[a]\n");
    }
    s
}

fn run_budget(rep: &mut Report, kind: &str, urllen: usize, nrefs: usize) {
    let mut x = budget_doc(urllen, nrefs);
    match kind {
        "final-newline" => {
            x.pop();
        }
        "nul" => x.push_str("\0\0\0\0\0\0\0\0\n"),
        _ => {}
    }
    let o = Opts::default();
    let input = format!("budget {} {} {}", kind, urllen, nrefs);
    match check_rel(kind, &o, &x) {
        Ok(Some((d, _))) => {
            rep.s_evals += 1;
            rep.count(&format!("s-budget-{}", kind));
            if !d.is_empty() {
                let tx = rewrite(kind, &x).unwrap_or_default();
                rep.fail(kind, classify(kind, &o, &x, &tx), input, format!("{} bytes, {} references to a {}-byte destination: {}", x.len(), nrefs, urllen, d));
            }
        }
        Ok(None) => {}
        Err(_) => rep.count("skipped-parser-panic"),
    }
}

const SYMS: &[&str] = &["a", " ", "\n", "\r", "\0", BOM];

pub fn run(cfg: &Cfg, rep: &mut Report) {
    let m = Model::from_env();
    let mut rng = Rng::new(cfg.seed ^ 0xC08);
    let corpus = Corpus::load();
    rep.rule = "K: every string of <= N symbols over {a, space, LF, CR, NUL, BOM} (exhaustive) and generated documents with random line-ending/NUL/BOM noise, parsed by the real parser with the process_line tap on, vs the Lean model's parseLines/preludes. S: generated documents (grammar/palette/bytes/corpus) x random option vectors (sourcepos off), each under the rewrites LF->CRLF, LF->CR (on the LF form), +final newline (on the text without trailing line ends), NUL->U+FFFD (a NUL is injected when there is none), +BOM, and mixed endings->LF; plus the reference-budget family. distinct_nontrivial counts distinct tapped line sequences with more than one line, a skipped BOM, or a sentinel.".into();

    // 1. K exhaustive
    let maxlen = if cfg.tier_thorough { 8 } else { 7 };
    let mut cur: Vec<String> = vec![String::new()];
    let mut total = 0u64;
    let mut bt = Batch::new();
    push_tap(&mut bt, rep, "");
    total += 1;
    for len in 1..=maxlen {
        let mut next = Vec::with_capacity(cur.len() * SYMS.len());
        for s in &cur {
            for sym in SYMS {
                let mut t = s.clone();
                t.push_str(sym);
                push_tap(&mut bt, rep, &t);
                total += 1;
                if bt.len() > 40_000 {
                    let b = std::mem::replace(&mut bt, Batch::new());
                    b.run(&m, rep);
                }
                if len < maxlen {
                    next.push(t);
                }
            }
        }
        rep.add(&format!("k-exhaustive-len{}", len), (cur.len() * SYMS.len()) as u64);
        cur = next;
    }
    bt.run(&m, rep);
    rep.exhaustive = true;
    rep.exhaustive_what.push(format!("all {} strings of <= {} symbols over {{a, space, LF, CR, NUL, BOM}}: tapped process_line calls vs model", total, maxlen));

    // 2. K random longer documents with line-ending / NUL / BOM noise
    let n = if cfg.tier_thorough { 200_000 } else if cfg.full { 40_000 } else { 8_000 };
    let mut bt = Batch::new();
    for i in 0..n {
        let (doc, name) = mixed_doc(&mut rng, &corpus);
        let x = noise(&mut rng, &doc);
        rep.count(&format!("k-doc-{}", name));
        if i < 3 {
            rep.sample(format!("K doc {:?}", show(x.as_bytes())));
        }
        push_tap(&mut bt, rep, &x);
        if bt.len() > 20_000 {
            let b = std::mem::replace(&mut bt, Batch::new());
            b.run(&m, rep);
        }
    }
    bt.run(&m, rep);

    // 3. S: the rewrites
    let n = if cfg.tier_thorough { 250_000 } else if cfg.full { 60_000 } else { 12_000 };
    for i in 0..n {
        let (doc, name) = mixed_doc(&mut rng, &corpus);
        let mut o = Opts::random(&mut rng);
        o.set("sourcepos", false);
        // make front matter reachable: the generators emit "---" blocks
        if rng.chance(1, 6) {
            o.front_matter_delimiter = Some("---".to_string());
        }
        rep.count(&format!("s-doc-{}", name));
        if o.front_matter_delimiter.is_some() {
            rep.count("s-front-matter-delimiter-set");
        }
        if i < 3 {
            rep.sample(format!("S doc {:?} opts [{}]", show(doc.as_bytes()), o.describe()));
        }
        run_doc(rep, &mut rng, &o, &doc);
    }
    // front matter documents under every rewrite (the splitter reads the raw text)
    let n_fm = if cfg.tier_thorough { 20_000 } else { 2_000 };
    for _ in 0..n_fm {
        let d = *rng.pick(&["---", "+++", "%%"]);
        let body = rng.ps(&["a: b", "title: x\ntags: [a]", "", "\n", "- x\n- y", "a\n\nb"]);
        let tail = rng.ps(&["", "\n", "text\n", "\n# h\n", "\ntext"]);
        let doc = format!("{}\n{}\n{}\n{}", d, body, d, tail);
        let mut o = Opts::random(&mut rng);
        o.set("sourcepos", false);
        o.front_matter_delimiter = Some(d.to_string());
        rep.count("s-doc-front-matter");
        run_doc(rep, &mut rng, &o, &doc);
    }
    // every block opener as the first line of the document (the BOM, the first line ending and the first
    // line's length bookkeeping meet there), under all extensions, each under every rewrite
    const FIRST_LINES: &[&str] = &[
        "> [!WARNING] Read this first\n> body\n", "> [!NOTE]\n> body\n", "# Title\n\ntext\n", "Title\n=====\n", "```rust\nlet x = 1;\n```\n", "~~~\ncode\n", "    indented\n",
        "| a | b |\n|---|---|\n| 1 | 2 |\n", "[^n]: note\n\ntext[^n]\n", "[r]: /u \"t\"\n\n[r]\n", "- [x] done\n- [ ] todo\n", "1. one\n2. two\n", "* * *\n", "<div>\nx\n</div>\n",
        "<!-- c -->\n", ">>>\nquote\n>>>\n", "> quote\nlazy\n", ">greentext\n", "Term\n\n: details\n", "$$\nx\n$$\n", "\\# not a heading\n", "&amp; entity first\n", "www.example.com first\n",
        "a@b.co first\n", "[[wiki]] first\n", "![img](/i.png \"t\")\n", "\ttab first\n", "  \n\nafter blank first line\n", "-\tx\n", "######\n",
    ];
    for fl in FIRST_LINES {
        for o in [Opts::all_extensions(), Opts::gfm(), Opts::default()] {
            let mut o = o;
            o.set("sourcepos", false);
            rep.count("s-doc-first-line-opener");
            run_doc(rep, &mut rng, &o, fl);
        }
    }
    // 4. S: the raw-size dependent reference budget (constructed family)
    for kind in ["crlf", "cr", "final-newline", "nul", "bom"] {
        run_budget(rep, kind, 10, 20_010);
        run_budget(rep, kind, 1000, 30_000);
        run_budget(rep, kind, 10, 2_000); // below the threshold: must agree
    }
}

pub fn replay(kind: &str, input: &str) -> Result<Option<String>, String> {
    let toks: Vec<&str> = input.split(' ').collect();
    let mut rep = Report::new("C08");
    match toks.first().copied() {
        Some("tap") if toks.len() == 2 => {
            let m = Model::from_env();
            let b = unhex(toks[1]).ok_or("bad hex")?;
            let s = String::from_utf8(b).map_err(|_| "not utf-8")?;
            let mut bt = Batch::new();
            push_tap(&mut bt, &mut rep, &s);
            bt.run(&m, &mut rep);
        }
        Some("rw") if toks.len() == 10 => {
            let o = Opts::from_wire(&toks[2..9]).ok_or("bad opts")?;
            let b = unhex(toks[9]).ok_or("bad hex")?;
            let s = String::from_utf8(b).map_err(|_| "not utf-8")?;
            run_rel(&mut rep, toks[1], &o, &s, false);
        }
        Some("budget") if toks.len() == 4 => {
            run_budget(&mut rep, toks[1], toks[2].parse().map_err(|_| "bad n")?, toks[3].parse().map_err(|_| "bad n")?);
        }
        _ => return Err("bad replay input".into()),
    }
    for c in rep.s_fail.iter().chain(rep.k_disagree.iter()) {
        if kind.is_empty() || c.kind == kind {
            return Ok(Some(format!("{} [{}]: {}", c.kind, c.sig, c.detail)));
        }
    }
    Ok(None)
}
