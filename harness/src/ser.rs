//! Serialises a real comrak AST into the wire format of Comrak/Ast.lean, and builds real
//! trees from generated descriptions.
use crate::util::hex;
use comrak::nodes::{AlertType, AstNode, ListDelimType, ListType, NodeList, NodeValue, TableAlignment};

fn b(x: bool) -> &'static str {
    if x { "1" } else { "0" }
}

fn nlist(l: &NodeList) -> String {
    format!(
        "{} {} {} {} {} {} {} {}",
        if l.list_type == ListType::Bullet { 0 } else { 1 },
        l.marker_offset,
        l.padding,
        l.start,
        if l.delimiter == ListDelimType::Period { 0 } else { 1 },
        l.bullet_char,
        b(l.tight),
        b(l.is_task_list)
    )
}

pub fn kind_name(v: &NodeValue) -> &'static str {
    match v {
        NodeValue::Document => "document",
        NodeValue::FrontMatter(_) => "frontmatter",
        NodeValue::BlockQuote => "block_quote",
        NodeValue::List(_) => "list",
        NodeValue::Item(_) => "item",
        NodeValue::DescriptionList => "description_list",
        NodeValue::DescriptionItem(_) => "description_item",
        NodeValue::DescriptionTerm => "description_term",
        NodeValue::DescriptionDetails => "description_details",
        NodeValue::CodeBlock(_) => "code_block",
        NodeValue::HtmlBlock(_) => "html_block",
        NodeValue::Paragraph => "paragraph",
        NodeValue::Heading(_) => "heading",
        NodeValue::ThematicBreak => "thematic_break",
        NodeValue::FootnoteDefinition(_) => "footnote_definition",
        NodeValue::Table(_) => "table",
        NodeValue::TableRow(_) => "table_row",
        NodeValue::TableCell => "table_cell",
        NodeValue::Text(_) => "text",
        NodeValue::TaskItem(_) => "taskitem",
        NodeValue::SoftBreak => "softbreak",
        NodeValue::LineBreak => "linebreak",
        NodeValue::Code(_) => "code",
        NodeValue::HtmlInline(_) => "html_inline",
        NodeValue::Raw(_) => "raw",
        NodeValue::Emph => "emph",
        NodeValue::Strong => "strong",
        NodeValue::Strikethrough => "strikethrough",
        NodeValue::Superscript => "superscript",
        NodeValue::Link(_) => "link",
        NodeValue::Image(_) => "image",
        NodeValue::FootnoteReference(_) => "footnote_reference",
        NodeValue::Math(_) => "math",
        NodeValue::MultilineBlockQuote(_) => "multiline_block_quote",
        NodeValue::Escaped => "escaped",
        NodeValue::WikiLink(_) => "wikilink",
        NodeValue::Underline => "underline",
        NodeValue::Subscript => "subscript",
        NodeValue::SpoileredText => "spoiler",
        NodeValue::EscapedTag(_) => "escaped_tag",
        NodeValue::Alert(_) => "alert",
    }
}

pub fn fields(v: &NodeValue) -> String {
    match v {
        NodeValue::FrontMatter(s) | NodeValue::Text(s) | NodeValue::HtmlInline(s) | NodeValue::Raw(s) | NodeValue::EscapedTag(s) => {
            format!(" {}", hex(s.as_bytes()))
        }
        NodeValue::List(l) | NodeValue::Item(l) => format!(" {}", nlist(l)),
        NodeValue::DescriptionItem(d) => format!(" {} {} {}", d.marker_offset, d.padding, b(d.tight)),
        NodeValue::CodeBlock(c) => format!(
            " {} {} {} {} {} {}",
            b(c.fenced),
            c.fence_char,
            c.fence_length,
            c.fence_offset,
            hex(c.info.as_bytes()),
            hex(c.literal.as_bytes())
        ),
        NodeValue::HtmlBlock(h) => format!(" {} {}", h.block_type, hex(h.literal.as_bytes())),
        NodeValue::Heading(h) => format!(" {} {}", h.level, b(h.setext)),
        NodeValue::FootnoteDefinition(f) => format!(" {} {}", hex(f.name.as_bytes()), f.total_references),
        NodeValue::Table(t) => {
            let al: String = t
                .alignments
                .iter()
                .map(|a| match a {
                    TableAlignment::None => 'n',
                    TableAlignment::Left => 'l',
                    TableAlignment::Center => 'c',
                    TableAlignment::Right => 'r',
                })
                .collect();
            format!(" {} {} {} {}", t.num_columns, t.num_rows, t.num_nonempty_cells, if al.is_empty() { "-".to_string() } else { al })
        }
        NodeValue::TableRow(h) => format!(" {}", b(*h)),
        NodeValue::TaskItem(s) => match s {
            None => " 0 -".to_string(),
            Some(c) => format!(" 1 {}", hex(c.to_string().as_bytes())),
        },
        NodeValue::Code(c) => format!(" {} {}", c.num_backticks, hex(c.literal.as_bytes())),
        NodeValue::Link(l) | NodeValue::Image(l) => format!(" {} {}", hex(l.url.as_bytes()), hex(l.title.as_bytes())),
        NodeValue::WikiLink(l) => format!(" {}", hex(l.url.as_bytes())),
        NodeValue::FootnoteReference(f) => format!(" {} {} {}", hex(f.name.as_bytes()), f.ref_num, f.ix),
        NodeValue::Math(m) => format!(" {} {} {}", b(m.dollar_math), b(m.display_math), hex(m.literal.as_bytes())),
        NodeValue::MultilineBlockQuote(m) => format!(" {} {}", m.fence_length, m.fence_offset),
        NodeValue::Alert(a) => format!(
            " {} {} {} {} {} {}",
            match a.alert_type {
                AlertType::Note => 0,
                AlertType::Tip => 1,
                AlertType::Important => 2,
                AlertType::Warning => 3,
                AlertType::Caution => 4,
            },
            b(a.title.is_some()),
            hex(a.title.clone().unwrap_or_default().as_bytes()),
            b(a.multiline),
            a.fence_length,
            a.fence_offset
        ),
        _ => String::new(),
    }
}

/// Iterative pre-order serialisation (trees can be very deep).
pub fn ser_tree<'a>(root: &'a AstNode<'a>) -> String {
    let mut out = String::new();
    enum Ev<'a> {
        Open(&'a AstNode<'a>),
        Close,
    }
    let mut stack = vec![Ev::Open(root)];
    while let Some(ev) = stack.pop() {
        match ev {
            Ev::Close => out.push_str(" E"),
            Ev::Open(n) => {
                let ast = n.data.borrow();
                if !out.is_empty() {
                    out.push(' ');
                }
                let sp = ast.sourcepos;
                out.push_str(&format!(
                    "N {} {} {} {} {}{}",
                    kind_name(&ast.value),
                    sp.start.line,
                    sp.start.column,
                    sp.end.line,
                    sp.end.column,
                    fields(&ast.value)
                ));
                stack.push(Ev::Close);
                let kids: Vec<_> = n.children().collect();
                for k in kids.into_iter().rev() {
                    stack.push(Ev::Open(k));
                }
            }
        }
    }
    out
}

/// Kind sequence of a tree (pre-order), used as the class descriptor for "distinct non-trivial".
pub fn kind_seq<'a>(root: &'a AstNode<'a>) -> Vec<&'static str> {
    root.descendants().map(|n| kind_name(&n.data.borrow().value)).collect()
}
