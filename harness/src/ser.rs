//! Serialises a real comrak AST into the wire format of Comrak/Ast.lean, and builds real
//! trees from generated descriptions.
use crate::util::hex;
use comrak::nodes::{AlertType, AstNode, ListDelimType, ListType, NodeList, NodeValue, TableAlignment};

fn b(x: bool) -> &'static str {
    if x { "1" } else { "0" }
}

fn nlist(l: &NodeList) -> String {
    format!(
        "{} {} {} {} {} {} {} {}",
        if l.list_type == ListType::Bullet { 0 } else { 1 },
        l.marker_offset,
        l.padding,
        l.start,
        if l.delimiter == ListDelimType::Period { 0 } else { 1 },
        l.bullet_char,
        b(l.tight),
        b(l.is_task_list)
    )
}

pub fn kind_name(v: &NodeValue) -> &'static str {
    match v {
        NodeValue::Document => "document",
        NodeValue::FrontMatter(_) => "frontmatter",
        NodeValue::BlockQuote => "block_quote",
        NodeValue::List(_) => "list",
        NodeValue::Item(_) => "item",
        NodeValue::DescriptionList => "description_list",
        NodeValue::DescriptionItem(_) => "description_item",
        NodeValue::DescriptionTerm => "description_term",
        NodeValue::DescriptionDetails => "description_details",
        NodeValue::CodeBlock(_) => "code_block",
        NodeValue::HtmlBlock(_) => "html_block",
        NodeValue::Paragraph => "paragraph",
        NodeValue::Heading(_) => "heading",
        NodeValue::ThematicBreak => "thematic_break",
        NodeValue::FootnoteDefinition(_) => "footnote_definition",
        NodeValue::Table(_) => "table",
        NodeValue::TableRow(_) => "table_row",
        NodeValue::TableCell => "table_cell",
        NodeValue::Text(_) => "text",
        NodeValue::TaskItem(_) => "taskitem",
        NodeValue::SoftBreak => "softbreak",
        NodeValue::LineBreak => "linebreak",
        NodeValue::Code(_) => "code",
        NodeValue::HtmlInline(_) => "html_inline",
        NodeValue::Raw(_) => "raw",
        NodeValue::Emph => "emph",
        NodeValue::Strong => "strong",
        NodeValue::Strikethrough => "strikethrough",
        NodeValue::Superscript => "superscript",
        NodeValue::Link(_) => "link",
        NodeValue::Image(_) => "image",
        NodeValue::FootnoteReference(_) => "footnote_reference",
        NodeValue::Math(_) => "math",
        NodeValue::MultilineBlockQuote(_) => "multiline_block_quote",
        NodeValue::Escaped => "escaped",
        NodeValue::WikiLink(_) => "wikilink",
        NodeValue::Underline => "underline",
        NodeValue::Subscript => "subscript",
        NodeValue::SpoileredText => "spoiler",
        NodeValue::EscapedTag(_) => "escaped_tag",
        NodeValue::Alert(_) => "alert",
    }
}

pub fn fields(v: &NodeValue) -> String {
    match v {
        NodeValue::FrontMatter(s) | NodeValue::Text(s) | NodeValue::HtmlInline(s) | NodeValue::Raw(s) | NodeValue::EscapedTag(s) => {
            format!(" {}", hex(s.as_bytes()))
        }
        NodeValue::List(l) | NodeValue::Item(l) => format!(" {}", nlist(l)),
        NodeValue::DescriptionItem(d) => format!(" {} {} {}", d.marker_offset, d.padding, b(d.tight)),
        NodeValue::CodeBlock(c) => format!(
            " {} {} {} {} {} {}",
            b(c.fenced),
            c.fence_char,
            c.fence_length,
            c.fence_offset,
            hex(c.info.as_bytes()),
            hex(c.literal.as_bytes())
        ),
        NodeValue::HtmlBlock(h) => format!(" {} {}", h.block_type, hex(h.literal.as_bytes())),
        NodeValue::Heading(h) => format!(" {} {}", h.level, b(h.setext)),
        NodeValue::FootnoteDefinition(f) => format!(" {} {}", hex(f.name.as_bytes()), f.total_references),
        NodeValue::Table(t) => {
            let al: String = t
                .alignments
                .iter()
                .map(|a| match a {
                    TableAlignment::None => 'n',
                    TableAlignment::Left => 'l',
                    TableAlignment::Center => 'c',
                    TableAlignment::Right => 'r',
                })
                .collect();
            format!(" {} {} {} {}", t.num_columns, t.num_rows, t.num_nonempty_cells, if al.is_empty() { "-".to_string() } else { al })
        }
        NodeValue::TableRow(h) => format!(" {}", b(*h)),
        NodeValue::TaskItem(s) => match s {
            None => " 0 -".to_string(),
            Some(c) => format!(" 1 {}", hex(c.to_string().as_bytes())),
        },
        NodeValue::Code(c) => format!(" {} {}", c.num_backticks, hex(c.literal.as_bytes())),
        NodeValue::Link(l) | NodeValue::Image(l) => format!(" {} {}", hex(l.url.as_bytes()), hex(l.title.as_bytes())),
        NodeValue::WikiLink(l) => format!(" {}", hex(l.url.as_bytes())),
        NodeValue::FootnoteReference(f) => format!(" {} {} {}", hex(f.name.as_bytes()), f.ref_num, f.ix),
        NodeValue::Math(m) => format!(" {} {} {}", b(m.dollar_math), b(m.display_math), hex(m.literal.as_bytes())),
        NodeValue::MultilineBlockQuote(m) => format!(" {} {}", m.fence_length, m.fence_offset),
        NodeValue::Alert(a) => format!(
            " {} {} {} {} {} {}",
            match a.alert_type {
                AlertType::Note => 0,
                AlertType::Tip => 1,
                AlertType::Important => 2,
                AlertType::Warning => 3,
                AlertType::Caution => 4,
            },
            b(a.title.is_some()),
            hex(a.title.clone().unwrap_or_default().as_bytes()),
            b(a.multiline),
            a.fence_length,
            a.fence_offset
        ),
        _ => String::new(),
    }
}

/// Iterative pre-order serialisation (trees can be very deep).
pub fn ser_tree<'a>(root: &'a AstNode<'a>) -> String {
    let mut out = String::new();
    enum Ev<'a> {
        Open(&'a AstNode<'a>),
        Close,
    }
    let mut stack = vec![Ev::Open(root)];
    while let Some(ev) = stack.pop() {
        match ev {
            Ev::Close => out.push_str(" E"),
            Ev::Open(n) => {
                let ast = n.data.borrow();
                if !out.is_empty() {
                    out.push(' ');
                }
                let sp = ast.sourcepos;
                out.push_str(&format!(
                    "N {} {} {} {} {}{}",
                    kind_name(&ast.value),
                    sp.start.line,
                    sp.start.column,
                    sp.end.line,
                    sp.end.column,
                    fields(&ast.value)
                ));
                stack.push(Ev::Close);
                let kids: Vec<_> = n.children().collect();
                for k in kids.into_iter().rev() {
                    stack.push(Ev::Open(k));
                }
            }
        }
    }
    out
}

/// Kind sequence of a tree (pre-order), used as the class descriptor for "distinct non-trivial".
pub fn kind_seq<'a>(root: &'a AstNode<'a>) -> Vec<&'static str> {
    root.descendants().map(|n| kind_name(&n.data.borrow().value)).collect()
}

// ---------------------------------------------------------------------------------------------
// wire -> real tree

use comrak::nodes::{
    Ast, LineColumn, NodeAlert, NodeCode, NodeCodeBlock, NodeDescriptionItem, NodeFootnoteDefinition, NodeFootnoteReference,
    NodeHeading, NodeHtmlBlock, NodeLink, NodeMath, NodeMultilineBlockQuote, NodeTable, NodeWikiLink, Sourcepos,
};
use comrak::Arena;

fn ub(s: &str) -> Option<bool> {
    match s {
        "1" => Some(true),
        "0" => Some(false),
        _ => None,
    }
}
fn us(s: &str) -> Option<String> {
    String::from_utf8(crate::util::unhex(s)?).ok()
}
fn un(s: &str) -> Option<usize> {
    s.parse().ok()
}

fn arity(k: &str) -> Option<usize> {
    Some(match k {
        "document" | "block_quote" | "description_list" | "description_term" | "description_details" | "paragraph"
        | "thematic_break" | "table_cell" | "softbreak" | "linebreak" | "emph" | "strong" | "strikethrough"
        | "superscript" | "escaped" | "underline" | "subscript" | "spoiler" => 0,
        "frontmatter" | "table_row" | "text" | "html_inline" | "raw" | "wikilink" | "escaped_tag" => 1,
        "list" | "item" => 8,
        "description_item" => 3,
        "code_block" => 6,
        "html_block" | "heading" | "footnote_definition" | "taskitem" | "code" | "link" | "image" | "multiline_block_quote" => 2,
        "table" => 4,
        "footnote_reference" | "math" => 3,
        "alert" => 6,
        _ => return None,
    })
}

fn nlist_of(f: &[&str]) -> Option<NodeList> {
    Some(NodeList {
        list_type: if un(f[0])? == 0 { ListType::Bullet } else { ListType::Ordered },
        marker_offset: un(f[1])?,
        padding: un(f[2])?,
        start: un(f[3])?,
        delimiter: if un(f[4])? == 0 { ListDelimType::Period } else { ListDelimType::Paren },
        bullet_char: un(f[5])? as u8,
        tight: ub(f[6])?,
        is_task_list: ub(f[7])?,
    })
}

fn value_of(k: &str, f: &[&str]) -> Option<NodeValue> {
    Some(match k {
        "document" => NodeValue::Document,
        "frontmatter" => NodeValue::FrontMatter(us(f[0])?),
        "block_quote" => NodeValue::BlockQuote,
        "list" => NodeValue::List(nlist_of(f)?),
        "item" => NodeValue::Item(nlist_of(f)?),
        "description_list" => NodeValue::DescriptionList,
        "description_item" => NodeValue::DescriptionItem(NodeDescriptionItem { marker_offset: un(f[0])?, padding: un(f[1])?, tight: ub(f[2])? }),
        "description_term" => NodeValue::DescriptionTerm,
        "description_details" => NodeValue::DescriptionDetails,
        "code_block" => NodeValue::CodeBlock(NodeCodeBlock {
            fenced: ub(f[0])?,
            fence_char: un(f[1])? as u8,
            fence_length: un(f[2])?,
            fence_offset: un(f[3])?,
            info: us(f[4])?,
            literal: us(f[5])?,
        }),
        "html_block" => NodeValue::HtmlBlock(NodeHtmlBlock { block_type: un(f[0])? as u8, literal: us(f[1])? }),
        "paragraph" => NodeValue::Paragraph,
        "heading" => NodeValue::Heading(NodeHeading { level: un(f[0])? as u8, setext: ub(f[1])? }),
        "thematic_break" => NodeValue::ThematicBreak,
        "footnote_definition" => NodeValue::FootnoteDefinition(NodeFootnoteDefinition { name: us(f[0])?, total_references: un(f[1])? as u32 }),
        "table" => {
            let al = if f[3] == "-" { vec![] } else {
                f[3].chars().map(|c| match c {
                    'l' => TableAlignment::Left,
                    'c' => TableAlignment::Center,
                    'r' => TableAlignment::Right,
                    _ => TableAlignment::None,
                }).collect()
            };
            NodeValue::Table(NodeTable { alignments: al, num_columns: un(f[0])?, num_rows: un(f[1])?, num_nonempty_cells: un(f[2])? })
        }
        "table_row" => NodeValue::TableRow(ub(f[0])?),
        "table_cell" => NodeValue::TableCell,
        "text" => NodeValue::Text(us(f[0])?),
        "taskitem" => NodeValue::TaskItem(if ub(f[0])? { us(f[1])?.chars().next() } else { None }),
        "softbreak" => NodeValue::SoftBreak,
        "linebreak" => NodeValue::LineBreak,
        "code" => NodeValue::Code(NodeCode { num_backticks: un(f[0])?, literal: us(f[1])? }),
        "html_inline" => NodeValue::HtmlInline(us(f[0])?),
        "raw" => NodeValue::Raw(us(f[0])?),
        "emph" => NodeValue::Emph,
        "strong" => NodeValue::Strong,
        "strikethrough" => NodeValue::Strikethrough,
        "superscript" => NodeValue::Superscript,
        "link" => NodeValue::Link(NodeLink { url: us(f[0])?, title: us(f[1])? }),
        "image" => NodeValue::Image(NodeLink { url: us(f[0])?, title: us(f[1])? }),
        "footnote_reference" => NodeValue::FootnoteReference(NodeFootnoteReference { name: us(f[0])?, ref_num: un(f[1])? as u32, ix: un(f[2])? as u32 }),
        "math" => NodeValue::Math(NodeMath { dollar_math: ub(f[0])?, display_math: ub(f[1])?, literal: us(f[2])? }),
        "multiline_block_quote" => NodeValue::MultilineBlockQuote(NodeMultilineBlockQuote { fence_length: un(f[0])?, fence_offset: un(f[1])? }),
        "escaped" => NodeValue::Escaped,
        "wikilink" => NodeValue::WikiLink(NodeWikiLink { url: us(f[0])? }),
        "underline" => NodeValue::Underline,
        "subscript" => NodeValue::Subscript,
        "spoiler" => NodeValue::SpoileredText,
        "escaped_tag" => NodeValue::EscapedTag(us(f[0])?),
        "alert" => NodeValue::Alert(NodeAlert {
            alert_type: match un(f[0])? {
                0 => AlertType::Note,
                1 => AlertType::Tip,
                2 => AlertType::Important,
                3 => AlertType::Warning,
                _ => AlertType::Caution,
            },
            title: if ub(f[1])? { Some(us(f[2])?) } else { None },
            multiline: ub(f[3])?,
            fence_length: un(f[4])?,
            fence_offset: un(f[5])?,
        }),
        _ => return None,
    })
}

/// Builds a real comrak tree from its wire form (the inverse of `ser_tree`).
pub fn build_tree<'a>(arena: &'a Arena<AstNode<'a>>, wire: &str) -> Option<&'a AstNode<'a>> {
    let toks: Vec<&str> = wire.split(' ').filter(|t| !t.is_empty()).collect();
    let mut i = 0;
    let mut stack: Vec<&'a AstNode<'a>> = vec![];
    let mut root: Option<&'a AstNode<'a>> = None;
    while i < toks.len() {
        match toks[i] {
            "E" => {
                stack.pop()?;
                i += 1;
            }
            "N" => {
                let k = *toks.get(i + 1)?;
                let n = arity(k)?;
                if i + 6 + n > toks.len() {
                    return None;
                }
                let sp = Sourcepos {
                    start: LineColumn { line: un(toks[i + 2])?, column: un(toks[i + 3])? },
                    end: LineColumn { line: un(toks[i + 4])?, column: un(toks[i + 5])? },
                };
                let v = value_of(k, &toks[i + 6..i + 6 + n])?;
                let mut ast = Ast::new(v, sp.start);
                ast.sourcepos = sp;
                let node = arena.alloc(AstNode::from(ast));
                if let Some(p) = stack.last() {
                    p.append(node);
                } else if root.is_none() {
                    root = Some(node);
                } else {
                    return None;
                }
                stack.push(node);
                i += 6 + n;
            }
            _ => return None,
        }
    }
    if stack.is_empty() { root } else { None }
}
