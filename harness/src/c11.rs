//! C11: source positions lie inside the source and nest consistently.
//! S (always at full volume): the Lean oracles `spRangeFail` / `spNested` / `spOrdered` (driver `spcheck11`)
//! on every node of the real tree. K: mechanism models (Spx::consume, content map) through hooks.
use crate::report::Report;
use crate::spk::{self, Which};
use crate::Cfg;

pub fn run(cfg: &Cfg, rep: &mut Report) {
    spk::run(Which::C11, cfg, rep);
}

pub fn replay(kind: &str, input: &str) -> Result<Option<String>, String> {
    spk::replay(Which::C11, kind, input)
}
