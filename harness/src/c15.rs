//! C15: footnote links and heading anchors are referentially intact.
//! K: (i) the real `comrak::Anchorizer` vs the Lean `anchorizeAll` on heading multisets built to collide;
//!    (ii) whole documents with headings and footnotes through the shared renderer correspondence;
//!    (iii) the Lean `processFootnotes` vs the real pass: the tree right before and right after
//!          `process_footnotes` is observed through `comrak::verif_footnote_hooks` and the model must map
//!          the first to the second, node for node.
//! S: the id/href graph of the REAL HTML (lexed by the Lean `lexHtml`) against the property's clauses, and the
//!    tree-level oracles of Comrak/Footnotes.lean on the real final tree.
use crate::gen::Corpus;
use crate::htmlk::{gen_case, push_html_k, Src};
use crate::model::{Batch, Model};
use crate::opts::Opts;
use crate::report::Report;
use crate::rng::Rng;
use crate::ser::ser_tree;
use crate::util::{hex, show, unhex};
use crate::Cfg;
use comrak::nodes::{AstNode, NodeValue};
use comrak::verif_footnote_hooks::set_tap;
use comrak::Anchorizer;
use std::cell::RefCell;
use std::collections::{BTreeMap, BTreeSet};
use std::panic::{catch_unwind, AssertUnwindSafe};
use std::rc::Rc;

// ------------------------------------------------------------------------------------------
// label normalisation as the harness knows it (strings::normalize_label is private): ASCII rules plus
// `char::to_lowercase` and the two sharp s. Names are generated from a pool on which this equals the
// real function; the whole-pass correspondence (iii) is what checks that claim on every run.

fn keep_label(s: &str) -> String {
    let t = s.trim_matches(|c| matches!(c, '\t' | '\n' | '\r' | ' '));
    let mut v = String::new();
    let mut last_ws = false;
    for c in t.chars() {
        if c.is_whitespace() {
            if !last_ws {
                last_ws = true;
                v.push(' ');
            }
        } else {
            last_ws = false;
            v.push(c);
        }
    }
    v
}

fn fold_label(s: &str) -> String {
    let mut o = String::new();
    for c in keep_label(s).chars() {
        match c {
            'ß' | 'ẞ' => o.push_str("ss"),
            c => o.extend(c.to_lowercase()),
        }
    }
    o
}

// ------------------------------------------------------------------------------------------
// syntactic classes of the input, computed from the tree as the inline parser leaves it (before the pass)

#[derive(Clone, Debug, Default)]
struct Classes {
    nested: bool,
    discarded_ref: bool,
    suffix: bool,
    pct: bool,
    uspace: bool,
    image: bool,
    heading_fn: bool,
    n_defs: usize,
    n_refs: usize,
    n_dup: usize,
    n_unresolved: usize,
    n_ref_in_def: usize,
}

const SIG_NESTED: &str = "def-nested-in-def";
const SIG_DISCARDED: &str = "ref-inside-discarded-def";
const SIG_PCT: &str = "name-has-literal-%XX";
const SIG_SUFFIX: &str = "name-is-other-name-dash-number";
const SIG_USPACE: &str = "label-with-unicode-space-at-edge";
const SIG_IMAGE: &str = "ref-inside-image-alt";
const SIG_HEADING: &str = "heading-text-looks-like-footnote-id";

#[derive(Default)]
struct Tapped {
    pre_wire: Option<String>,
    post_wire: Option<String>,
    labels: Vec<String>,
    classes: Classes,
}

fn has_pct_escape(s: &str) -> bool {
    let b = s.as_bytes();
    (0..b.len()).any(|i| b[i] == b'%' && b.get(i + 1).map_or(false, |c| c.is_ascii_hexdigit()) && b.get(i + 2).map_or(false, |c| c.is_ascii_hexdigit()))
}

fn ref_keys_in<'a>(n: &'a AstNode<'a>, out: &mut Vec<String>) {
    for d in n.descendants() {
        if let NodeValue::FootnoteReference(r) = &d.data.borrow().value {
            out.push(fold_label(&r.name));
        }
    }
}

fn outer_defs<'a>(n: &'a AstNode<'a>, out: &mut Vec<&'a AstNode<'a>>) {
    let is_def = matches!(n.data.borrow().value, NodeValue::FootnoteDefinition(_));
    if is_def {
        out.push(n);
    } else {
        for c in n.children() {
            outer_defs(c, out);
        }
    }
}

fn classify<'a>(root: &'a AstNode<'a>) -> (Classes, Vec<String>) {
    let mut c = Classes::default();
    let mut labels: BTreeSet<String> = BTreeSet::new();
    for n in root.descendants() {
        match &n.data.borrow().value {
            NodeValue::FootnoteDefinition(d) => {
                labels.insert(d.name.clone());
                if n.ancestors().skip(1).any(|a| matches!(a.data.borrow().value, NodeValue::FootnoteDefinition(_))) {
                    c.nested = true;
                }
                if has_pct_escape(&d.name) {
                    c.pct = true;
                }
            }
            NodeValue::Heading(_) => {
                let mut t = Vec::new();
                comrak::html::collect_text(n, &mut t);
                if let Ok(t) = String::from_utf8(t) {
                    let a = Anchorizer::new().anchorize(t);
                    if a.starts_with("fn-") || a.starts_with("fnref-") {
                        c.heading_fn = true;
                    }
                }
            }
            NodeValue::FootnoteReference(r) => {
                labels.insert(r.name.clone());
                c.n_refs += 1;
                if n.ancestors().any(|a| matches!(a.data.borrow().value, NodeValue::FootnoteDefinition(_))) {
                    c.n_ref_in_def += 1;
                }
                if n.ancestors().any(|a| matches!(a.data.borrow().value, NodeValue::Image(_))) {
                    c.image = true;
                }
            }
            _ => {}
        }
    }
    let mut outer = vec![];
    outer_defs(root, &mut outer);
    c.n_defs = outer.len();
    let keys: Vec<String> = outer
        .iter()
        .map(|d| match &d.data.borrow().value {
            NodeValue::FootnoteDefinition(f) => fold_label(&f.name),
            _ => String::new(),
        })
        .collect();
    let mut winner: BTreeMap<String, usize> = BTreeMap::new();
    for (i, k) in keys.iter().enumerate() {
        if winner.insert(k.clone(), i).is_some() {
            c.n_dup += 1;
        }
    }
    let inner: Vec<Vec<String>> = outer
        .iter()
        .map(|d| {
            let mut v = vec![];
            ref_keys_in(d, &mut v);
            v.retain(|k| winner.contains_key(k));
            v
        })
        .collect();
    // references outside every definition
    let mut body: Vec<String> = vec![];
    for n in root.descendants() {
        if let NodeValue::FootnoteReference(r) = &n.data.borrow().value {
            let k = fold_label(&r.name);
            if !winner.contains_key(&k) {
                c.n_unresolved += 1;
            } else if !n.ancestors().any(|a| matches!(a.data.borrow().value, NodeValue::FootnoteDefinition(_))) {
                body.push(k);
            }
        }
    }
    let mut live: BTreeSet<String> = BTreeSet::new();
    let mut todo = body;
    while let Some(k) = todo.pop() {
        if live.insert(k.clone()) {
            for k2 in &inner[winner[&k]] {
                todo.push(k2.clone());
            }
        }
    }
    for (i, k) in keys.iter().enumerate() {
        let kept = winner[k] == i && live.contains(k);
        if !kept && !inner[i].is_empty() {
            c.discarded_ref = true;
        }
    }
    let names: Vec<String> = winner
        .values()
        .map(|&i| match &outer[i].data.borrow().value {
            NodeValue::FootnoteDefinition(f) => keep_label(&f.name),
            _ => String::new(),
        })
        .collect();
    for a in &names {
        for b in &names {
            if let Some(rest) = b.strip_prefix(a.as_str()) {
                if let Some(d) = rest.strip_prefix('-') {
                    if !d.is_empty() && d.bytes().all(|x| x.is_ascii_digit()) {
                        c.suffix = true;
                    }
                }
            }
        }
    }
    for l in &labels {
        let k = keep_label(l);
        if keep_label(&k) != k {
            c.uspace = true;
        }
    }
    let mut all: BTreeSet<String> = labels.clone();
    for l in &labels {
        all.insert(keep_label(l));
        all.insert(keep_label(&keep_label(l)));
    }
    (c, all.into_iter().collect())
}

fn labels_wire(labels: &[String]) -> String {
    let mut s = format!("L{}", labels.len());
    for l in labels {
        s.push_str(&format!(" {} {} {}", hex(l.as_bytes()), hex(fold_label(l).as_bytes()), hex(keep_label(l).as_bytes())));
    }
    s
}

/// Runs `f` (which parses exactly one document) with the footnote observer installed.
fn with_tap<R>(f: impl FnOnce() -> R) -> (R, Tapped) {
    let cell: Rc<RefCell<Tapped>> = Rc::new(RefCell::new(Tapped::default()));
    let c2 = cell.clone();
    set_tap(Some(Box::new(move |after, root| {
        let mut t = c2.borrow_mut();
        if !after {
            let (cl, labels) = classify(root);
            t.classes = cl;
            t.labels = labels;
            t.pre_wire = Some(ser_tree(root));
        } else {
            t.post_wire = Some(ser_tree(root));
        }
    })));
    let r = catch_unwind(AssertUnwindSafe(f));
    set_tap(None);
    let t = std::mem::take(&mut *cell.borrow_mut());
    match r {
        Ok(r) => (r, t),
        Err(e) => std::panic::resume_unwind(e),
    }
}

// ------------------------------------------------------------------------------------------
// the id/href graph of the real HTML

#[derive(Debug, Default)]
struct RefE {
    id: Option<String>,
    href: Option<String>,
    num: String,
    in_def: Option<usize>,
}
#[derive(Debug, Default)]
struct DefE {
    id: String,
    backrefs: Vec<String>,
}
#[derive(Debug, Default)]
struct Graph {
    refs: Vec<RefE>,
    defs: Vec<DefE>,
    heading_ids: Vec<String>,
    all_ids: Vec<String>,
    orphan_backrefs: usize,
}

fn attr(s: &str) -> Option<String> {
    match s {
        "~" => None,
        "-" => Some(String::new()),
        h => Some(String::from_utf8_lossy(&unhex(h).unwrap_or_default()).into_owned()),
    }
}

fn graph_of(skel: &str) -> Result<Graph, String> {
    if skel == "unlexable" {
        return Err("the output is not made of complete tags and text".into());
    }
    let mut g = Graph::default();
    let mut stack: Vec<(String, Option<usize>)> = vec![];
    let toks: Vec<&str> = skel.split(' ').filter(|t| !t.is_empty()).collect();
    let mut section_open = false;
    let mut i = 0;
    while i < toks.len() {
        let f: Vec<&str> = toks[i].split('|').collect();
        match f[0] {
            "O" | "V" if f.len() == 5 => {
                let (name, id, href, flags) = (f[1], attr(f[2]), attr(f[3]), f[4]);
                if let Some(x) = &id {
                    g.all_ids.push(x.clone());
                }
                let cur = stack.iter().rev().find_map(|e| e.1);
                let mut def_ix = None;
                if flags.contains('s') {
                    section_open = true;
                }
                if name == "li" && id.is_some() && section_open {
                    g.defs.push(DefE { id: id.clone().unwrap(), backrefs: vec![] });
                    def_ix = Some(g.defs.len() - 1);
                }
                if name == "a" && flags.contains('r') {
                    let num = match toks.get(i + 1).map(|t| t.split('|').collect::<Vec<_>>()) {
                        Some(t) if t[0] == "T" && t.len() == 2 => attr(t[1]).unwrap_or_default(),
                        _ => String::new(),
                    };
                    g.refs.push(RefE { id: id.clone(), href: href.clone(), num, in_def: cur });
                }
                if name == "a" && flags.contains('b') {
                    match cur {
                        Some(d) => g.defs[d].backrefs.push(href.clone().unwrap_or_default()),
                        None => g.orphan_backrefs += 1,
                    }
                }
                if name == "a" && flags.contains('a') {
                    g.heading_ids.push(id.clone().unwrap_or_default());
                }
                if f[0] == "O" {
                    stack.push((name.to_string(), def_ix));
                }
            }
            "C" if f.len() == 2 => {
                stack.pop();
            }
            _ => {}
        }
        i += 1;
    }
    Ok(g)
}

fn dup<'a>(v: &'a [String]) -> Option<&'a String> {
    let mut s = BTreeSet::new();
    v.iter().find(|x| !s.insert(x.as_str()))
}

fn count_sub(h: &[u8], n: &[u8]) -> usize {
    if n.is_empty() || h.len() < n.len() {
        return 0;
    }
    (0..=h.len() - n.len()).filter(|&i| &h[i..i + n.len()] == n).count()
}

/// The clauses of the property on one output; returns (kind, detail) per failing clause.
fn oracle(g: &Graph, md: &str, html: &[u8], literal_clause: bool) -> Vec<(&'static str, String)> {
    let mut out = vec![];
    if let Some(d) = dup(&g.heading_ids) {
        out.push(("html-heading-anchors-distinct", format!("heading anchor id {:?} is issued twice", d)));
    }
    if let Some(d) = dup(&g.all_ids) {
        out.push(("html-ids-distinct", format!("id {:?} occurs twice in the output", d)));
    }
    // every reference points to exactly one rendered definition
    let mut target: Vec<Option<usize>> = vec![];
    let mut bad_target = None;
    for r in &g.refs {
        let h = r.href.clone().unwrap_or_default();
        let t = h.strip_prefix('#').unwrap_or("\u{0}");
        let hits: Vec<usize> = g.defs.iter().enumerate().filter(|(_, d)| d.id == t).map(|(i, _)| i).collect();
        if hits.len() != 1 || !t.starts_with("fn-") {
            bad_target.get_or_insert(format!("reference href {:?} has {} definitions with that id", h, hits.len()));
        }
        target.push(hits.first().copied());
    }
    if let Some(d) = bad_target {
        out.push(("html-ref-target-once", d));
    }
    // back-links of a definition = ids of its references, as multisets
    let mut bad = None;
    for (i, d) in g.defs.iter().enumerate() {
        let mut want: Vec<String> = g.refs.iter().zip(&target).filter(|(_, t)| **t == Some(i)).map(|(r, _)| r.id.clone().unwrap_or_default()).collect();
        let mut got: Vec<String> = d.backrefs.iter().map(|h| h.strip_prefix('#').unwrap_or("?").to_string()).collect();
        want.sort();
        got.sort();
        if want != got {
            bad.get_or_insert(format!("definition {:?} links back to {:?} but its references have the ids {:?}", d.id, got, want));
        }
    }
    if g.orphan_backrefs > 0 {
        bad.get_or_insert("a back-link outside every definition".to_string());
    }
    if let Some(d) = bad {
        out.push(("html-backrefs-match-refs", d));
    }
    // numbering: the k-th definition is number k
    let mut bad = None;
    for (r, t) in g.refs.iter().zip(&target) {
        if let Some(t) = t {
            if r.num != (t + 1).to_string() {
                bad.get_or_insert(format!("a reference to the {}. definition ({:?}) shows the number {:?}", t + 1, g.defs[*t].id, r.num));
            }
        }
    }
    if let Some(d) = bad {
        out.push(("html-numbering", d));
    }
    // order of first reference: among the references outside the footnote section, a footnote that is not
    // referenced from inside any rendered definition gets its number at its first body reference
    let ref_in_def: BTreeSet<usize> = g.refs.iter().zip(&target).filter(|(r, _)| r.in_def.is_some()).filter_map(|(_, t)| *t).collect();
    let mut firsts: Vec<usize> = vec![];
    for (r, t) in g.refs.iter().zip(&target) {
        if r.in_def.is_none() {
            if let Some(t) = t {
                if !firsts.contains(t) {
                    firsts.push(*t);
                }
            }
        }
    }
    let mut bad = None;
    for w in 0..firsts.len() {
        for v in w + 1..firsts.len() {
            if firsts[w] > firsts[v] && !ref_in_def.contains(&firsts[v]) {
                bad.get_or_insert(format!(
                    "footnote {:?} is first referenced after {:?} (and from no definition) but is numbered {} < {}",
                    g.defs[firsts[v]].id,
                    g.defs[firsts[w]].id,
                    firsts[v] + 1,
                    firsts[w] + 1
                ));
            }
        }
    }
    if let Some(d) = bad {
        out.push(("html-numbering-order", d));
    }
    // unreferenced definitions are omitted
    for (i, d) in g.defs.iter().enumerate() {
        if !target.iter().any(|t| *t == Some(i)) {
            out.push(("html-unreferenced-omitted", format!("definition {:?} is rendered but nothing in the output refers to it", d.id)));
            break;
        }
    }
    // unresolved references stay literal text (names zzN are never defined by the generator)
    for n in 0..(if literal_clause { 4 } else { 0 }) {
        let pat = format!("[^zz{}]", n);
        let (a, b) = (count_sub(md.as_bytes(), pat.as_bytes()), count_sub(html, pat.as_bytes()));
        // an occurrence directly followed by `[` or `(` may be the text of an ordinary (reference) link - e.g.
        // `[^zz0][^1]` when `[^1]: url` is read as a link reference definition - and then is not literal text
        let maybe_link_text = md
            .as_bytes()
            .windows(pat.len() + 1)
            .filter(|w| w.starts_with(pat.as_bytes()) && (w[pat.len()] == b'[' || w[pat.len()] == b'('))
            .count();
        if b > a || b + maybe_link_text < a {
            out.push(("html-unresolved-literal", format!("{} occurs {} times in the source ({} of them directly before a bracket) but {} times in the output", pat, a, maybe_link_text, b)));
            break;
        }
    }
    out
}

/// The defect classes the input belongs to (in a fixed order).
fn classes_of(c: &Classes, heading_clash: bool) -> Vec<&'static str> {
    [(SIG_NESTED, c.nested), (SIG_IMAGE, c.image), (SIG_DISCARDED, c.discarded_ref), (SIG_PCT, c.pct), (SIG_USPACE, c.uspace), (SIG_SUFFIX, c.suffix), (SIG_HEADING, heading_clash)]
        .iter()
        .filter(|x| x.1)
        .map(|x| x.0)
        .collect()
}

/// Signature of a failure: the one known class of the input, or "no-known-class".
/// Inputs in two or more classes are not evaluated by the oracles (counted as skipped).
fn sig_for(c: &Classes, heading_clash: bool) -> &'static str {
    classes_of(c, heading_clash).first().copied().unwrap_or("no-known-class")
}

// ------------------------------------------------------------------------------------------
// generators

const NAMES_CLEAN: &[&str] = &["a", "b", "c", "1", "2", "n1", "x_y", "a.b", "q!", "é", "日本", "a&b", "a'b", "long-name", "Ω", "note"];
const NAMES_WILD: &[&str] = &["a", "A", "b", "B", "a-2", "a-1", "b-2", "a-2-2", "é", "É", "%C3%A9", "a%20b", "a%2", "ß", "ss", "SS", "x_y", "1", "2", "1-2", "<x>", "\"q\"", "a*b*", "a_b"];
const HEADS: &[&str] = &["a", "A", "a-1", "a 1", "a-1-1", "a-2", "!!!", "", "é", "É", "a  b", "a_b", "a.b", "ab", "a-", "-a", "1", "日本", "Ω ω", "a 1 1", "?", "a*b*", "`a`", "a [^a]"];
const HEADS_FN: &[&str] = &["fn-a", "fnref-a", "fn a", "fnref a 2", "fn-1"];

/// Minimal inputs of the recorded findings (each in exactly one class) and clean neighbours.
pub const CORPUS: &[&str] = &[
    "x[^a]\n\n[^a]: A\n\n[^b]: B[^a]\n",
    "[^a] [^a] [^a-2]\n\n[^a]: A\n\n[^a-2]: B\n",
    "x[^a]\n\n[^a]: A\n    [^b]: inner\n",
    "x[^a] [^b]\n\n[^a]: A\n    [^b]: inner\n\n[^b]: B\n",
    "[^\u{e9}] [^%C3%A9]\n\n[^\u{e9}]: A\n\n[^%C3%A9]: B\n",
    "![x[^a]](u.png)\n\n[^a]: A\n",
    "x[^\u{a0}u]\n\n[^\u{a0}u]: A\n",
    "# fn-a\n\nx[^a]\n\n[^a]: A\n",
    "x[^a] y[^b] z[^a]\n\n[^b]: B[^a]\n\n[^a]: A\n",
    "[^a]: A[^a]\n",
    "[^A]: first\n\n[^a]: second\n\nx[^A]\n",
    "# a\n\n# A\n\n# a-1\n\n# a 1\n\n#\n\n# !\n",
    "| h[^a] |\n|---|\n| [x[^a]](u) |\n\n# t[^b]\n\n[^a]: A\n\n[^b]: B\n\n[^zz1]\n",
];

struct Doc {
    md: String,
    mode: &'static str,
}

fn refs_text(r: &mut Rng, names: &[&str], n: usize) -> String {
    refs_text_z(r, names, n, true)
}

fn refs_text_z(r: &mut Rng, names: &[&str], n: usize, zz: bool) -> String {
    let mut s = String::new();
    for _ in 0..n {
        s.push_str(r.ps(&["word", "text ", "x", "and ", ""]));
        if zz && r.chance(1, 12) {
            s.push_str(&format!("[^zz{}]", r.below(4)));
        } else {
            s.push_str(&format!("[^{}]", r.ps(names)));
        }
        s.push_str(r.ps(&["", " ", ". ", ", "]));
    }
    s
}

fn gen_doc(r: &mut Rng) -> Doc {
    let wild = r.chance(3, 10);
    let pool: &[&str] = if wild { NAMES_WILD } else { NAMES_CLEAN };
    let k = r.range(1, 5);
    let mut names: Vec<&str> = vec![];
    while names.len() < k {
        let n = r.ps(pool);
        if !names.contains(&n) {
            names.push(n);
        }
    }
    let mut blocks: Vec<String> = vec![];
    let nb = r.range(1, 7);
    let heads_fn = wild && r.chance(1, 8);
    for _ in 0..nb {
        let nrefs = r.range(0, 3);
        let t = refs_text(r, &names, nrefs);
        let b = match r.below(12) {
            0 | 1 | 2 => format!("para {}", t),
            3 => format!("{} {} {}", "#".repeat(r.range(1, 3)), if heads_fn { r.ps(HEADS_FN) } else { r.ps(HEADS) }, t),
            4 => format!("{}\n{}", if heads_fn { r.ps(HEADS_FN) } else { r.ps(HEADS) }, r.ps(&["===", "---"])),
            5 => format!("| h {} | x |\n|---|---|\n| c {} | d |", t, refs_text(r, &names, 1)),
            6 => format!("[link {} text](http://x.example/)", t),
            7 => format!("*em {}* **st {}**", t, refs_text(r, &names, 1)),
            8 => format!("> quote {}", t),
            9 => format!("- item {}\n- two {}", t, refs_text(r, &names, 1)),
            10 => format!("`[^{}]` code {}", r.ps(&names), t),
            11 if wild => format!("{} ![img {}](u.png)", t, refs_text(r, &names, 1)),
            _ => format!("{} ![img plain](u.png) {}", t, refs_text(r, &names, 1)),
        };
        blocks.push(b);
    }
    // headings that collide
    for _ in 0..r.range(0, 4) {
        blocks.push(format!("{} {}", "#".repeat(r.range(1, 6)), if heads_fn { r.ps(HEADS_FN) } else { r.ps(HEADS) }));
    }
    // definitions
    let mut defs: Vec<String> = vec![];
    for n in &names {
        if wild && r.chance(1, 5) {
            continue; // undefined name
        }
        let ni = r.range(1, 2);
        let inner = if r.chance(1, 3) { refs_text_z(r, &names, ni, false) } else { String::new() };
        let mut d = match r.below(6) {
            0 => format!("[^{}]: def {}\n\n    second para {}", n, inner, if r.chance(1, 3) { refs_text_z(r, &names, 1, false) } else { String::new() }),
            1 => format!("[^{}]: def {}\n    lazy line", n, inner),
            2 if wild => format!("> [^{}]: quoted def {}", n, inner),
            3 if wild => format!("- [^{}]: def in item {}", n, inner),
            _ => format!("[^{}]: def {}", n, inner),
        };
        if wild && r.chance(1, 6) {
            d.push_str(&format!("\n    [^{}]: nested {}", r.ps(&names), if r.chance(1, 2) { refs_text_z(r, &names, 1, false) } else { String::new() }));
        }
        defs.push(d);
        if wild && r.chance(1, 5) {
            defs.push(format!("[^{}]: duplicate {}", r.ps(&names), if r.chance(1, 2) { refs_text_z(r, &names, 1, false) } else { String::new() }));
        }
    }
    if wild && r.chance(1, 4) {
        defs.push(format!("[^unused{}]: never referenced {}", r.below(3), if r.chance(1, 2) { refs_text_z(r, &names, 1, false) } else { String::new() }));
    }
    if !wild {
        // every defined name is referenced from the body at least once: nothing is discarded
        let mut t = String::from("refs:");
        for n in &names {
            t.push_str(&format!(" [^{}]", n));
        }
        let at = r.below(blocks.len() + 1);
        blocks.insert(at, t);
    } else if r.chance(1, 8) {
        defs.push("[^\u{a0}u]: label with a no-break space".to_string());
        blocks.push("nbsp [^\u{a0}u]".to_string());
    }
    // interleave definitions with the blocks
    for d in defs {
        let at = r.below(blocks.len() + 1);
        blocks.insert(at, d);
    }
    Doc { md: blocks.join("\n\n") + "\n", mode: if wild { "wild" } else { "clean" } }
}

/// Fixed options of the `fndoc <hex markdown>` replay form: footnotes and tables on, header ids with an empty prefix.
fn fn_opts() -> Opts {
    let mut o = Opts::default();
    o.set("footnotes", true).set("table", true);
    o.header_ids = Some(String::new());
    o
}

fn doc_opts(r: &mut Rng) -> Opts {
    let mut o = Opts::random(r);
    o.set("footnotes", true).set("table", true);
    // `^` is the superscript delimiter under that extension: `[^x]` is then not footnote syntax in general
    o.set("superscript", false);
    // raw HTML is never passed through: the id/href graph is comrak's own
    o.set("unsafe_", false);
    if !r.chance(1, 10) {
        o.header_ids = Some(r.pick(&["", "user-content-", "h-"]).to_string());
    }
    o.front_matter_delimiter = None;
    o
}

// ------------------------------------------------------------------------------------------
// one document through K(ii), K(iii) and S

fn push_doc<'a>(bt: &mut Batch<'a>, rep: &mut Report, o: &Opts, md: &str, srcname: &str) {
    let src = Src::Doc(md.to_string());
    let input = src.input(o);
    // a parser panic is C01's subject, not C15's: such inputs are counted and left out
    {
        let c = o.to_comrak();
        let arena = comrak::Arena::new();
        if catch_unwind(AssertUnwindSafe(|| {
            comrak::parse_document(&arena, md, &c);
        }))
        .is_err()
        {
            rep.count("skipped-parser-panics-C01");
            return;
        }
    }
    let (rendered, tap) = with_tap(|| push_html_k(bt, rep, o, &src, srcname));
    let r = match rendered {
        Some(r) => r,
        None => return,
    };
    // completion: the same document followed by headings that spell the anchors just issued (an anchor
    // made up outside the anchorizer's bookkeeping collides with the heading that spells it)
    if srcname != "completed-with-issued-anchors" {
        if let Some(prefix) = o.header_ids.as_deref() {
            let pat = format!(" id=\"{}", prefix);
            let html = String::from_utf8_lossy(&r.html).into_owned();
            let mut ids: Vec<String> = vec![];
            for (k, _) in html.match_indices("class=\"anchor\"") {
                let mut end = html.len().min(k + 400);
                while !html.is_char_boundary(end) {
                    end -= 1;
                }
                let tail = &html[k..end];
                if let Some(a) = tail.find(&pat) {
                    let rest = &tail[a + pat.len()..];
                    if let Some(e) = rest.find('"') {
                        let id = &rest[..e];
                        if !id.is_empty() && !id.contains('&') && !ids.iter().any(|x| x == id) {
                            ids.push(id.to_string());
                        }
                    }
                }
            }
            if !ids.is_empty() && ids.len() <= 8 {
                let mut md2 = md.to_string();
                if !md2.ends_with('\n') {
                    md2.push('\n');
                }
                for id in &ids {
                    md2.push_str(&format!("\n# {}\n", id.replace('-', " ")));
                }
                rep.count("completed-with-issued-anchors");
                push_doc(bt, rep, o, &md2, "completed-with-issued-anchors");
            }
        }
    }
    let c = tap.classes.clone();
    rep.add("footnote-definitions", c.n_defs as u64);
    rep.add("footnote-references", c.n_refs as u64);
    rep.add("references-inside-definitions", c.n_ref_in_def as u64);
    rep.add("duplicate-definitions", c.n_dup as u64);
    rep.add("unresolved-references", c.n_unresolved as u64);
    for (k, v) in [("class-nested-def", c.nested), ("class-ref-in-discarded-def", c.discarded_ref), ("class-suffix-collision", c.suffix), ("class-pct-name", c.pct), ("class-unicode-space", c.uspace), ("class-ref-in-image", c.image)] {
        if v {
            rep.count(k);
        }
    }
    let lw = labels_wire(&tap.labels);
    // K(iii): the model maps the tree before the pass to the tree after it
    if o.get("footnotes") {
        if let (Some(pre), Some(post)) = (&tap.pre_wire, &tap.post_wire) {
            let i0 = input.clone();
            bt.push(format!("fnpass {} {} {}", lw, pre, post), move |resp, rep| {
                rep.k_evals += 1;
                if resp != "1" {
                    rep.disagree("footnote-pass-tree", i0, format!("processFootnotes(tree before the pass) differs from the real tree after the pass: {}", resp));
                }
            });
        } else {
            rep.disagree("footnote-pass-tap", input.clone(), "the observer of verif_footnote_hooks was not called".into());
        }
    }
    // headings whose anchor spells a footnote id, written without a prefix
    let heading_clash = c.heading_fn && o.header_ids.as_deref() == Some("");
    if classes_of(&c, heading_clash).len() > 1 {
        rep.count("oracle-skipped-input-in-several-known-classes");
        return;
    }
    // S, tree level: the oracles of Comrak/Footnotes.lean on the real final tree
    let sig = sig_for(&c, heading_clash);
    {
        let i1 = input.clone();
        let src1 = show(md.as_bytes());
        bt.push(format!("fncheck {} {}", lw, r.tree_wire), move |resp, rep| {
            let names = ["refs-point-to-a-numbered-definition", "definition-names-unique", "ref-nums-are-1-to-total", "unreferenced-omitted"];
            let bits: Vec<&str> = resp.split(' ').collect();
            rep.s_evals += names.len() as u64;
            let bad: Vec<&str> = names.iter().enumerate().filter(|(k, _)| bits.get(*k) != Some(&"1")).map(|(_, n)| *n).collect();
            if !bad.is_empty() {
                rep.fail("footnote-integrity", sig, i1, format!("final tree: clauses {:?} fail :: source {:?}", bad, src1));
            }
        });
    }
    // S, HTML level
    let (i2, md2, html2) = (input, md.to_string(), r.html.clone());
    let literal_clause = !o.get("superscript");
    bt.push(format!("idgraph {}", hex(&r.html)), move |resp, rep| match graph_of(resp) {
        Err(e) => {
            rep.s_evals += 1;
            rep.fail("html-lexable", "unlexable", i2, e);
        }
        Ok(g) => {
            rep.s_evals += 8;
            rep.add("html-footnote-refs", g.refs.len() as u64);
            rep.add("html-footnote-defs", g.defs.len() as u64);
            rep.add("html-heading-anchors", g.heading_ids.len() as u64);
            let fails = oracle(&g, &md2, &html2, literal_clause);
            let src2 = show(md2.as_bytes());
            let integrity: Vec<&(&str, String)> = fails.iter().filter(|f| f.0.starts_with("html-") && f.0 != "html-ids-distinct" && f.0 != "html-heading-anchors-distinct").collect();
            if !integrity.is_empty() {
                let clauses: Vec<&str> = integrity.iter().map(|f| &f.0[5..]).collect();
                rep.fail("footnote-integrity", sig, i2.clone(), format!("HTML: clauses {:?} fail; first: {} :: source {:?}", clauses, integrity[0].1, src2));
            }
            for (kind, detail) in &fails {
                if *kind == "html-ids-distinct" || *kind == "html-heading-anchors-distinct" {
                    rep.fail(&kind[5..], sig, i2.clone(), format!("{} :: source {:?}", detail, src2));
                }
            }
        }
    });
}

// ------------------------------------------------------------------------------------------
// K(i): Anchorizer

fn push_anchors<'a>(bt: &mut Batch<'a>, rep: &mut Report, texts: Vec<String>) {
    let input = format!("anch {}", texts.iter().map(|t| hex(t.as_bytes())).collect::<Vec<_>>().join(" "));
    let real = catch_unwind(AssertUnwindSafe(|| {
        let mut a = Anchorizer::new();
        texts.iter().map(|t| a.anchorize(t.clone())).collect::<Vec<String>>()
    }));
    let real = match real {
        Ok(v) => v,
        Err(_) => {
            rep.fail("anchorizer-total", "panic", input, "Anchorizer::anchorize panics".into());
            return;
        }
    };
    rep.s_evals += 1;
    if let Some(d) = dup(&real) {
        rep.fail("anchors-distinct", "anchorizer", input.clone(), format!("the anchor {:?} is issued twice for {:?}", d, texts));
    }
    if real.iter().any(|a| a.rsplit('-').next().map_or(false, |s| !s.is_empty() && s.bytes().all(|b| b.is_ascii_digit()))) {
        rep.nontrivial(&real);
    }
    let mut pairs: Vec<(String, String)> = vec![];
    for t in &texts {
        if !pairs.iter().any(|p| &p.0 == t) {
            let mut a = Anchorizer::new();
            pairs.push((t.clone(), a.anchorize(t.clone())));
        }
    }
    let mut req = format!("anchors A{}", pairs.len());
    for (t, n) in &pairs {
        req.push_str(&format!(" {} {}", hex(t.as_bytes()), hex(n.as_bytes())));
    }
    for t in &texts {
        req.push(' ');
        req.push_str(&hex(t.as_bytes()));
    }
    let want = real.iter().map(|a| hex(a.as_bytes())).collect::<Vec<_>>().join(" ");
    bt.push(req, move |resp, rep| {
        rep.k_evals += 1;
        if resp != want {
            rep.disagree("anchorizer-model", input, format!("real {:?} model {:?}", want, resp));
        }
    });
}

pub fn run(cfg: &Cfg, rep: &mut Report) {
    let m = Model::from_env();
    let mut rng = Rng::new(cfg.seed ^ 0xC15);
    rep.rule = "K(i) heading-text sequences over a pool built to collide after normalisation and with generated -N suffixes (all sequences of length <= 3 over 9 texts, then random sequences of length <= 14); K(ii)+(iii)+S footnote documents: 1-5 names from a pool (clean: every definition unique and referenced from the body; wild: case variants, duplicates, X / X-2 pairs, %XX names, nested, quoted, unused and self-referential definitions, unresolved names), references in paragraphs, headings, table cells, links, emphasis, quotes, list items, images and definitions, colliding headings, x random options with footnotes on, raw HTML off, header_ids mostly on; plus documents of the shared generators with footnotes and header_ids on. distinct_nontrivial counts distinct (node-kind sequence, options) classes and distinct anchor sequences carrying a generated suffix".into();

    // K(i) exhaustive short sequences
    let small: &[&str] = &["a", "A", "a-1", "a 1", "a-1-1", "a-2", "", "!", "é"];
    let mut bt = Batch::new();
    let mut seqs: Vec<Vec<String>> = vec![vec![]];
    let mut cur: Vec<Vec<String>> = vec![vec![]];
    for _ in 0..3 {
        let mut next = vec![];
        for s in &cur {
            for t in small {
                let mut v = s.clone();
                v.push(t.to_string());
                next.push(v);
            }
        }
        seqs.extend(next.iter().cloned());
        cur = next;
    }
    let n_exh = seqs.len();
    for s in seqs {
        rep.count("anchor-sequences-exhaustive");
        push_anchors(&mut bt, rep, s);
    }
    rep.exhaustive_what.push(format!("all {} sequences of length <= 3 over 9 colliding heading texts through Anchorizer vs anchorizeAll", n_exh));
    let n = if cfg.tier_thorough { 60_000 } else if cfg.full { 12_000 } else { 3_000 };
    let uni: &[&str] = &["É", "é", "Ω ω", "日本", "ǅ", "a\u{301}", "ß", "ẞ", "İ", "\u{2003}x", "x\u{a0}y", "a\u{200d}b", "٣", "½", "a‿b"];
    for i in 0..n {
        let len = rng.range(1, 14);
        let narrow = rng.chance(1, 2);
        let mut v = vec![];
        for _ in 0..len {
            let t = if narrow { rng.ps(&HEADS[..8]) } else if rng.chance(1, 6) { rng.ps(uni) } else if rng.chance(1, 10) { rng.ps(HEADS_FN) } else { rng.ps(HEADS) };
            v.push(t.to_string());
        }
        if i < 2 {
            rep.sample(format!("heading texts {:?}", v));
        }
        rep.count("anchor-sequences-random");
        push_anchors(&mut bt, rep, v);
    }
    bt.run(&m, rep);

    // fixed corpus first: the minimal inputs of the recorded findings and their clean neighbours
    let mut bt = Batch::new();
    for md in CORPUS {
        rep.count("footnote-doc-corpus");
        push_doc(&mut bt, rep, &fn_opts(), md, "corpus");
    }
    bt.run(&m, rep);

    // footnote documents
    let n = if cfg.tier_thorough { 60_000 } else if cfg.full { 12_000 } else { 2_500 };
    let mut bt = Batch::new();
    for i in 0..n {
        let d = gen_doc(&mut rng);
        let o = doc_opts(&mut rng);
        if i < 4 {
            rep.sample(format!("{} doc {:?} opts [{}]", d.mode, show(d.md.as_bytes()), o.describe()));
        }
        rep.count(&format!("footnote-doc-{}", d.mode));
        push_doc(&mut bt, rep, &o, &d.md, d.mode);
        if bt.len() > 8_000 {
            let b = std::mem::replace(&mut bt, Batch::new());
            b.run(&m, rep);
        }
    }
    bt.run(&m, rep);

    // documents of the shared generators, footnotes and header_ids on
    let corpus = Corpus::load();
    let n = if cfg.tier_thorough { 30_000 } else if cfg.full { 6_000 } else { 1_000 };
    let mut bt = Batch::new();
    for _ in 0..n {
        let (src, name) = gen_case(&mut rng, &corpus);
        let md = match src {
            Src::Doc(md) => md,
            Src::Tree(_) => continue,
        };
        let mut o = doc_opts(&mut rng);
        o.header_ids = Some(rng.pick(&["", "user-content-"]).to_string());
        push_doc(&mut bt, rep, &o, &md, name);
        if bt.len() > 8_000 {
            let b = std::mem::replace(&mut bt, Batch::new());
            b.run(&m, rep);
        }
    }
    bt.run(&m, rep);
    rep.notes.push("label normalisation (strings::normalize_label, private) is a parameter of processFootnotes: the harness passes (label, fold, keep) computed by its own ASCII+to_lowercase rules for every label of the tree; the node-for-node comparison (iii) fails if they differ from the real function".into());
}

pub fn replay(kind: &str, input: &str) -> Result<Option<String>, String> {
    let m = Model::from_env();
    let mut rep = Report::new("C15");
    let mut bt = Batch::new();
    if let Some(rest) = input.strip_prefix("anch") {
        let mut v = vec![];
        for h in rest.split(' ').filter(|t| !t.is_empty()) {
            v.push(String::from_utf8(unhex(h).ok_or("bad hex")?).map_err(|_| "bad utf8")?);
        }
        push_anchors(&mut bt, &mut rep, v);
    } else if let Some(h) = input.strip_prefix("fndoc ") {
        let md = String::from_utf8(unhex(h).ok_or("bad hex")?).map_err(|_| "bad utf8")?;
        push_doc(&mut bt, &mut rep, &fn_opts(), &md, "replay");
    } else {
        let (o, src) = Src::parse_input(input).ok_or("bad replay input")?;
        match src {
            Src::Doc(md) => push_doc(&mut bt, &mut rep, &o, &md, "replay"),
            Src::Tree(_) => {
                push_html_k(&mut bt, &mut rep, &o, &src, "replay");
            }
        }
    }
    bt.run(&m, &mut rep);
    for c in rep.s_fail.iter().chain(rep.k_disagree.iter()) {
        if kind.is_empty() || c.kind == kind {
            return Ok(Some(format!("{} [{}]: {}", c.kind, c.sig, c.detail)));
        }
    }
    Ok(None)
}
