//! Random trees written directly in wire form (then built as real `AstNode`s by
//! `ser::build_tree`): shape-respecting by default, with kinds, payloads and contexts the
//! parser rarely or never produces (Raw, hostile literals everywhere, odd source positions).
use crate::gen::{hostile_or_words, HOSTILE};
use crate::rng::Rng;
use crate::util::hex;

fn sp(r: &mut Rng) -> String {
    if r.chance(1, 5) {
        "0 0 0 0".to_string()
    } else if r.chance(1, 6) {
        // long documents / long lines: many-digit positions
        let l = *r.pick(&[99usize, 100, 1000, 12345, 100000, 4294967295]);
        format!("{} {} {} {}", l, *r.pick(&[9usize, 100, 1000, 65536]), l + r.below(1000), *r.pick(&[99usize, 101, 10000, 123456789]))
    } else {
        let l = r.range(1, 30);
        format!("{} {} {} {}", l, r.range(1, 40), l + r.below(3), r.range(0, 60))
    }
}

fn hs(r: &mut Rng) -> String {
    hex(hostile_or_words(r).as_bytes())
}

pub const RAW_HTML: &[&str] = &[
    "<b>", "</b>", "<script>", "</script>", "<SCRIPT >x", "<xmp", "<xmp>", "</xmp/>", "<title/>", "<titles>", "<TeXtArEa\n>",
    "<style x=\"y\">", "<iframe", "<noembed>", "<noframes >", "<plaintext/>x", "</plaintext>", "<!-- c -->", "<", "<x", "</",
    "<div>\n<title>t</title>\n<xmp>\n</div>\n", "a <script> b </SCRIPT> c <p>", "<\u{130}frame>", "<\u{212a}>", "<script",
];

fn node(out: &mut String, kind: &str, spv: String, fields: &str) {
    if !out.is_empty() {
        out.push(' ');
    }
    out.push_str(&format!("N {} {}{}{}", kind, spv, if fields.is_empty() { "" } else { " " }, fields));
}
fn end(out: &mut String) {
    out.push_str(" E");
}

fn inline(out: &mut String, r: &mut Rng, depth: usize, in_cell: bool) {
    let k = if depth == 0 { r.below(9) } else { r.below(24) };
    match k {
        0..=3 => {
            // the parser leaves zero-length text nodes inside links (after a code span + hard break, after an escape)
            let lit = if r.chance(1, 16) { "-".to_string() } else { hs(r) };
            node(out, "text", sp(r), &lit);
            end(out);
        }
        4 => {
            node(out, "code", sp(r), &format!("{} {}", r.range(1, 3), hs(r)));
            end(out);
        }
        5 => {
            if in_cell {
                node(out, "text", sp(r), &hs(r));
            } else {
                node(out, if r.chance(1, 2) { "softbreak" } else { "linebreak" }, sp(r), "");
            }
            end(out);
        }
        6 => {
            node(out, "html_inline", sp(r), &hex(r.ps(RAW_HTML).as_bytes()));
            end(out);
        }
        7 => {
            node(out, "footnote_reference", sp(r), &format!("{} {} {}", hs(r), r.range(0, 3), r.range(0, 4)));
            end(out);
        }
        8 => {
            node(out, "math", sp(r), &format!("{} {} {}", r.below(2), r.below(2), hs(r)));
            end(out);
        }
        9..=16 => {
            let kind = *r.pick(&["emph", "strong", "strong", "strikethrough", "superscript", "subscript", "underline", "spoiler"]);
            node(out, kind, sp(r), "");
            for _ in 0..r.range(0, 2) {
                inline(out, r, depth - 1, in_cell);
            }
            end(out);
        }
        17 | 18 => {
            let url = hex(r.ps(&["/u", "javascript:x", "JAVASCRIPT:alert(1)", "data:text/html,x", "data:image/png;base64,A", "vbscript:x", "file:x", "a\"b'c&d", "é"]).as_bytes());
            node(out, if k == 17 { "link" } else { "image" }, sp(r), &format!("{} {}", url, if r.chance(1, 2) { "-".to_string() } else { hs(r) }));
            for _ in 0..r.range(0, 2) {
                inline(out, r, depth - 1, in_cell);
            }
            end(out);
        }
        19 => {
            node(out, "wikilink", sp(r), &hs(r));
            inline(out, r, 0, in_cell);
            end(out);
        }
        20 if !in_cell => {
            node(out, "escaped", sp(r), "");
            node(out, "text", sp(r), &hex(r.ps(&["*", "<", "&", "\"", "@"]).as_bytes()));
            end(out);
            end(out);
        }
        21 if !in_cell => {
            node(out, "escaped_tag", sp(r), &hex(r.ps(&["~", "~~", "|"]).as_bytes()));
            end(out);
        }
        22 if !in_cell => {
            node(out, "raw", sp(r), &hex(r.ps(RAW_HTML).as_bytes()));
            end(out);
        }
        _ => {
            node(out, "text", sp(r), &hex(r.ps(HOSTILE).as_bytes()));
            end(out);
        }
    }
}

fn inlines(out: &mut String, r: &mut Rng, in_cell: bool) {
    for _ in 0..r.range(0, 3) {
        inline(out, r, 2, in_cell);
    }
}

fn nlist(r: &mut Rng, ordered: bool, tight: bool, task: bool) -> String {
    format!(
        "{} {} {} {} {} {} {} {}",
        if ordered { 1 } else { 0 },
        r.below(4),
        r.range(2, 4),
        *r.pick(&[1usize, 1, 0, 2, 42]),
        r.below(2),
        *r.pick(&[45u8, 42, 43]),
        if tight { 1 } else { 0 },
        if task { 1 } else { 0 }
    )
}

fn block(out: &mut String, r: &mut Rng, depth: usize) {
    let k = if depth == 0 { r.below(7) } else { r.below(20) };
    match k {
        0..=2 => {
            node(out, "paragraph", sp(r), "");
            inlines(out, r, false);
            end(out);
        }
        3 => {
            node(out, "heading", sp(r), &format!("{} {}", r.range(1, 6), r.below(2)));
            inlines(out, r, false);
            end(out);
        }
        4 => {
            let info = r.ps(&["", "rust", "math", "a b", "x y=\"z\"", "a\"b<c&d", "\u{a0}x\u{a0} y \u{2003}", "é lang", " lead"]);
            node(out, "code_block", sp(r), &format!("{} 96 3 0 {} {}", r.below(2), hex(info.as_bytes()), hs(r)));
            end(out);
        }
        5 => {
            node(out, "html_block", sp(r), &format!("{} {}", r.range(1, 7), hex(r.ps(RAW_HTML).as_bytes())));
            end(out);
        }
        6 => {
            node(out, "thematic_break", sp(r), "");
            end(out);
        }
        7 | 8 => {
            node(out, if k == 7 { "block_quote" } else { "multiline_block_quote" }, sp(r), if k == 7 { "" } else { "3 0" });
            for _ in 0..r.range(0, 2) {
                block(out, r, depth - 1);
            }
            end(out);
        }
        9..=11 => {
            let ordered = r.chance(1, 2);
            let tight = r.chance(1, 2);
            let task = r.chance(1, 3);
            let nl = nlist(r, ordered, tight, task);
            node(out, "list", sp(r), &nl);
            for _ in 0..r.range(1, 3) {
                if task && r.chance(2, 3) {
                    let sym = if r.chance(1, 2) { "1 78".to_string() } else { "0 -".to_string() };
                    node(out, "taskitem", sp(r), &sym);
                } else {
                    node(out, "item", sp(r), &nl);
                }
                for _ in 0..r.range(0, 2) {
                    block(out, r, depth - 1);
                }
                end(out);
            }
            end(out);
        }
        12 | 13 => {
            let cols = r.range(1, 3);
            let nrows = r.range(1, 3);
            let al: String = (0..cols).map(|_| *r.pick(&['n', 'l', 'c', 'r'])).collect();
            node(out, "table", sp(r), &format!("{} {} {} {}", cols, nrows, cols * nrows, al));
            for row in 0..nrows {
                node(out, "table_row", sp(r), if row == 0 { "1" } else { "0" });
                for _ in 0..cols {
                    node(out, "table_cell", sp(r), "");
                    inlines(out, r, true);
                    end(out);
                }
                end(out);
            }
            end(out);
        }
        14 => {
            let title = if r.chance(1, 2) { format!("1 {}", hs(r)) } else { "0 -".to_string() };
            node(out, "alert", sp(r), &format!("{} {} {} 0 0", r.below(5), title, r.below(2)));
            for _ in 0..r.range(0, 2) {
                block(out, r, depth - 1);
            }
            end(out);
        }
        15 | 16 => {
            node(out, "description_list", sp(r), "");
            for _ in 0..r.range(1, 2) {
                node(out, "description_item", sp(r), &format!("0 2 {}", r.below(2)));
                node(out, "description_term", sp(r), "");
                node(out, "paragraph", sp(r), "");
                inlines(out, r, false);
                end(out);
                end(out);
                node(out, "description_details", sp(r), "");
                for _ in 0..r.range(0, 2) {
                    block(out, r, depth - 1);
                }
                end(out);
                end(out);
            }
            end(out);
        }
        _ => {
            node(out, "paragraph", sp(r), "");
            inlines(out, r, false);
            end(out);
        }
    }
}

/// A shape-respecting document tree in wire form.
pub fn tree_wire(r: &mut Rng) -> String {
    let mut out = String::new();
    node(&mut out, "document", sp(r), "");
    if r.chance(1, 10) {
        node(&mut out, "frontmatter", sp(r), &hex(b"---\nx: 1\n---\n"));
        end(&mut out);
    }
    for _ in 0..r.range(0, 4) {
        block(&mut out, r, 3);
    }
    // footnote definitions: only under the document (or nested in one another)
    for _ in 0..r.below(3) {
        node(&mut out, "footnote_definition", sp(r), &format!("{} {}", hs(r), r.range(0, 3)));
        for _ in 0..r.range(0, 2) {
            block(&mut out, r, 1);
        }
        if r.chance(1, 5) {
            node(&mut out, "footnote_definition", sp(r), &format!("{} {}", hs(r), r.range(0, 2)));
            block(&mut out, r, 0);
            end(&mut out);
        }
        end(&mut out);
    }
    end(&mut out);
    out
}
