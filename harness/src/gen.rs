//! Document generators shared by the K and S stages (DESIGN.md 7.00). Every random choice
//! comes from the caller's `Rng`.
use crate::rng::Rng;

pub const PALETTE: &[&str] = &[
    "a", "b c", "foo", "*", "**", "_", "__", "***", "`", "``", "```", "~", "~~", "~~~", "^", "$", "$$", "$`", "`$",
    "[", "]", "(", ")", "[^a]", "[^a]: ", "[^b]", "[^b]: x", "[a]", "[a]: /u", "[a]: /u \"t\"", "![", "](", "](/u)",
    "](/u \"t\")", "<", ">", "<a>", "</a>", "<!--", "-->", "<?", "?>", "<![CDATA[", "]]>", "<div>", "</div>",
    "<script>", "</script>", "<xmp>", "<title>", "&", "&amp;", "&#35;", "&#x22;", "&copy;", "\\", "\\*", "\\\\", "\\|",
    "|", "||", "| a | b |", "|-|-|", "| :- | -: |", "|:-:|", "-", "--", "---", "- ", "+ ", "* ", "1. ", "1) ", "10. ",
    "- [ ] ", "- [x] ", "#", "# ", "## ", "###### ", "####### ", "######\n", "#####", "#\n", "## \n", "###### #\n", "#\t", "=", "===", ">", "> ", ">>> ", ">>>", "> [!NOTE]",
    "> [!tip] T", ":", ": ", "::", "://", ":// ", "://(x)", "//", "x://", "w", "www.", "www.a.b", "http://a.b", "https://a.b/c?d=e&f", "a@b.c", "mailto:a@b.c", "<http://x>",
    "<a@b.c>", "javascript:alert(1)", "data:text/html,x", "data:image/png;base64,x", "[[a]]", "[[a|b]]", "\"", "'", "\"a\"",
    "'a'", "...", "--", " ", "  ", "    ", "\t", "\n", "\n\n", "  \n", "\\\n", "\r\n", "\r", "\u{0}", "\u{feff}", "é", "世界",
    "\u{a0}", "\u{2028}", "𝄞", "İ", "\u{212a}", "!", "!!", "@", "%", "%20", "{", "}", "=", "+", "__a__", "*a*", "**a**",
    "~a~", "~~a~~", "^a^", "||a||", "$a$", "$$a$$", "`a`", "``a``", "<b>", "</b>", "<img src=x>", "<br/>", "term\n\n: def",
    "```rust\nx\n```", "```math\nx\n```", "~~~ a b\"c<d\nx\n~~~", "    code", "<div>\nx\n</div>", "<!-- c -->", "---\nt: 1\n---",
    "a\n===", "a\n---", "* * *", "___",
    // characters whose code point ends in the byte of an ASCII special (U+017E / U+307E: `~`, U+012A: `*`, U+015F: `_`,
    // U+0160: backtick, U+013C: `<`, U+015B: `[`, U+017C: `|`, U+015E: `^`, U+0124: `$`, U+013A: `:`, U+0126: `&`) next to delimiters
    "*mu\u{17e}*", "**\u{17e}ena**", "_\u{15f}_", "\u{307e}", "*\u{307e}\u{3059}*", "\u{12a}", "\u{160}", "\u{13c}", "\u{15b}", "\u{17c}", "\u{15e}", "\u{124}",
    "\u{13a}", "\u{126}", "__\u{4e7e}__", "~\u{17e}~",
    // a paragraph line directly before a table header, with an escaped pipe inside a code span
    "see `a\\|b` below\n| h | i |\n|---|---|\n| c | d |\n", "x \\| y\n| h |\n|-|\n",
    "ask ann@example.org or bob@example.org today", "a@b.c d@e.f g",
    // a container marker followed by a tab and the line end (the tab is half consumed, nothing is added to the
    // container), lines that start with a multi-byte character, zero-length text nodes inside links
    "-\t\n", "1.\t\n", ">\t\n", ">\t", "-\t", "\n\u{e9}t\u{e9}", "\n\u{4e16}", "[`a`  \nb](u)", "[[u|\\*x]]", "![`a`\\\nb](u)",
    // schemes that contain an autolink trigger character after their first letter (relaxed autolinks rewind over text nodes)
    "the news://n.o/p x", "a twitter://x.y", "rawr://r.s",
    // upper-case spellings of what the extensions react to in lower case
    // labels of undefined footnote references that hold more than text; code blocks with white-space-only lines
    "[^see the\nnote] for details", "[^about `foo`] y", "[^a ![i](u)] z", "```\nfoo\n      \nbar\n```\n", "~~~\n \n\t\n    \nx\n~~~\n", "    a\n     \n    b\n",
    "```&nbsp;rust ignore\nx\n```\n", "``` \u{a0}x \u{2003}\ny\n```\n", "```\n```\n", "~~~ r\n~~~\n",
    "ORDER AT WWW.EXAMPLE.COM/SHOP NOW", "HTTP://EXAMPLE.COM/X", "MAILTO:A@B.C", "[!note]", "<SCRIPT>", "&AMP;", "&COPY;",
];

pub const HOSTILE: &[&str] = &[
    "\"", "'", "<", ">", "&", "`", "-->", "<!--", "\"><script>alert(1)</script>", "' onmouseover='x", "&quot;", "&#34;",
    "javascript:alert(1)", "JaVaScRiPt:x", "vbscript:x", "VBScript:x", "Vbscript:y", "FILE:x", "File:///x", "DATA:text/html,x", "Data:text/html,x", "file:///etc/passwd", "data:text/html;base64,PHNjcmlwdD4=",
    "data:image/png;base64,AAAA", "data:image/svg+xml,<svg/onload=x>", "&#106;avascript:x", "java\tscript:x", "%22%3E", "\\\"",
    "\u{0}", "\u{1}", "\u{7f}", "é\"", "]]>", "</code>", "</pre>", "</a>", "<xmp>", "</title >", "x\" y=\"z", "a b", "a\tb",
];

fn words(r: &mut Rng) -> String {
    const W: &[&str] = &["alpha", "beta", "gamma", "x", "y", "Z", "foo", "bar", "baz", "1", "2.", "10)", "a*b", "c_d", "e~f", "g|h", "i`j",
        "k<l", "m>n", "o&p", "q[r", "s]t", "u#v", "w+x", "y-z", "é", "世", "tab\there", "q\"r", "s't", "u\\v", "w!x", "$y", "z^", "=", ":", "www.x.y", "a@b.c"];
    let n = r.range(1, 5);
    let mut s = String::new();
    for i in 0..n {
        if i > 0 {
            s.push(' ');
        }
        s.push_str(r.ps(W));
    }
    s
}

pub fn hostile_or_words(r: &mut Rng) -> String {
    if r.chance(1, 3) {
        r.ps(HOSTILE).to_string()
    } else {
        words(r)
    }
}

pub fn inline(r: &mut Rng, depth: usize) -> String {
    let k = if depth == 0 { r.below(8) } else { r.below(30) };
    match k {
        0..=7 => words(r),
        8 => format!("*{}*", inline(r, depth - 1)),
        9 => format!("**{}**", inline(r, depth - 1)),
        10 => format!("_{}_", inline(r, depth - 1)),
        11 => format!("`{}`", hostile_or_words(r).replace('`', "'")),
        12 => format!("[{}]({} \"{}\")", inline(r, depth - 1), url(r), hostile_or_words(r).replace('"', "&quot;")),
        13 => format!("[{}]({})", inline(r, depth - 1), url(r)),
        14 => format!("![{}]({} \"{}\")", inline(r, depth - 1), url(r), words(r)),
        15 => format!("<{}>", r.ps(&["http://a.b/c", "https://x.y?z=1&w=2", "mailto:a@b.c", "a@b.c", "javascript:x"])),
        16 => r.ps(&["<b>", "</b>", "<i class=\"x\">", "<script>", "</script>", "<!-- c -->", "<xmp>", "<TITLE >", "<br/>", "<?php x ?>"]).to_string(),
        17 => format!("~~{}~~", inline(r, depth - 1)),
        18 => format!("[^{}]", r.ps(&["a", "b", "c", "A", "a-2", "é", "x\"y"])),
        19 => format!("[{}][{}]", inline(r, depth - 1), r.ps(&["r1", "R1", "r2", "nope"])),
        20 => r.ps(&["&amp;", "&lt;", "&#35;", "&#x22;", "&copy;", "&nosuch;", "\\*", "\\<", "\\\\", "\\&"]).to_string(),
        21 => format!("{}  \n{}", words(r), words(r)),
        22 => format!("{}\n{}", words(r), words(r)),
        23 => format!("[[{}|{}]]", url(r), words(r)),
        24 => format!("||{}||", inline(r, depth - 1)),
        25 => format!("${}$", words(r)),
        26 => format!("__{}__", inline(r, depth - 1)),
        27 => format!("~{}~", words(r)),
        28 => format!("^{}^", words(r)),
        _ => r.ps(&["www.example.com/a?b=c", "http://x.y/z", "a@b.co", "\"quoted\"", "'single'", "a -- b --- c...", "$`m`$"]).to_string(),
    }
}

fn url(r: &mut Rng) -> String {
    if r.chance(1, 6) {
        // a dangerous scheme in a random letter-case spelling
        let (scheme, rest) = *r.pick(&[("javascript", ":alert(1)"), ("vbscript", ":x"), ("file", ":x"), ("data", ":text/html,x"), ("data", ":image/png;base64,AA")]);
        let sp: String = scheme.chars().map(|c| if r.chance(1, 2) { c.to_ascii_uppercase() } else { c }).collect();
        return format!("{}{}", sp, rest);
    }
    r.ps(&[
        "/u", "http://a.b/c?d=e&f=g", "<a b>", "javascript:alert(1)", "JAVASCRIPT:x", "data:text/html,x", "data:image/png;base64,AA",
        "data:image/gif;x", "vbscript:x", "file:x", "x\"y", "a'b", "%41%zz", "é", "#frag", "",
    ])
    .to_string()
}

fn inlines(r: &mut Rng) -> String {
    let n = r.range(1, 4);
    let mut s = String::new();
    for i in 0..n {
        if i > 0 {
            s.push_str(r.ps(&[" ", " ", "", "\n"]));
        }
        s.push_str(&inline(r, 2));
    }
    s
}

fn indent(s: &str, first: &str, rest: &str) -> String {
    let mut out = String::new();
    for (i, l) in s.lines().enumerate() {
        out.push_str(if i == 0 { first } else { rest });
        out.push_str(l);
        out.push('\n');
    }
    out
}

pub fn block(r: &mut Rng, depth: usize) -> String {
    let k = if depth == 0 { r.below(12) } else { r.below(26) };
    match k {
        0..=3 => format!("{}\n", inlines(r)),
        4 => {
            if r.chance(1, 6) {
                // a heading without text: hashes directly before the line end, or before blanks / a closing sequence
                format!("{}{}\n", "#".repeat(r.range(1, 6)), r.ps(&["", "", " ", "\t", " #", "  ##  "]))
            } else {
                format!("{} {}\n", "#".repeat(r.range(1, 6)), inlines(r).replace('\n', " "))
            }
        }
        5 => format!("{}\n{}\n", words(r), r.ps(&["===", "---", "="])),
        6 => r.ps(&["---\n", "***\n", "* * *\n", "___\n"]).to_string(),
        7 => {
            let f = r.ps(&["```", "~~~", "````"]);
            format!("{}{}\n{}\n{}\n", f, r.ps(&["", "rust", "math", " a b", "x y=\"z\"", "a\"b<c&d", "é"]), hostile_or_words(r), f)
        }
        8 => format!("    {}\n", hostile_or_words(r)),
        9 => r
            .pick(&["<div>\nx *y*\n</div>\n", "<!-- c -->\n", "<script>\nalert(1)\n</script>\n", "<?php\n?>\n", "<xmp>\n", "<title>x</title>\n", "<table><tr><td>\nx\n</td></tr></table>\n"])
            .to_string(),
        10 => format!("[r1]: {} \"{}\"\n", url(r), words(r).replace('"', "")),
        11 => format!("[^{}]: {}\n", r.ps(&["a", "b", "c", "A", "a-2"]), inlines(r).replace('\n', " ")),
        12 | 13 => {
            let n = r.range(1, 3);
            let mut s = String::new();
            for _ in 0..n {
                s.push_str(&block(r, depth - 1));
                if r.chance(1, 2) {
                    s.push('\n');
                }
            }
            indent(&s, "> ", r.ps(&["> ", "> ", ">", ""]))
        }
        14 | 15 | 16 => {
            let ordered = r.chance(1, 2);
            let n = r.range(1, 4);
            let loose = r.chance(1, 3);
            let start = *r.pick(&[1usize, 1, 2, 7, 0, 123456789]);
            let mut s = String::new();
            for i in 0..n {
                let marker = if ordered { format!("{}{} ", start + i, r.ps(&[".", ")"])) } else { format!("{} ", r.ps(&["-", "*", "+"])) };
                let task = if r.chance(1, 4) { r.ps(&["[ ] ", "[x] ", "[X] ", "[~] "]) } else { "" };
                let mut body = format!("{}{}", task, block(r, depth - 1));
                if r.chance(1, 3) {
                    body.push_str(&block(r, depth - 1));
                }
                let pad = " ".repeat(marker.len());
                s.push_str(&indent(&body, &marker, &pad));
                if loose {
                    s.push('\n');
                }
            }
            s
        }
        17 | 18 => {
            let cols = r.range(1, 4);
            let mut s = String::new();
            let row = |r: &mut Rng, n: usize| -> String {
                let mut t = String::from("|");
                for _ in 0..n {
                    t.push(' ');
                    t.push_str(&inline(r, 1).replace('\n', " ").replace('|', "\\|"));
                    t.push_str(" |");
                }
                t.push('\n');
                t
            };
            s.push_str(&row(r, cols));
            s.push('|');
            for _ in 0..cols {
                s.push_str(r.ps(&["---|", ":--|", "--:|", ":-:|", " - |"]));
            }
            s.push('\n');
            for _ in 0..r.below(4) {
                let n = if r.chance(1, 4) { r.range(0, cols + 2) } else { cols };
                s.push_str(&row(r, n));
            }
            s
        }
        19 => format!("> [!{}]{}\n> {}\n", r.ps(&["NOTE", "tip", "IMPORTANT", "Warning", "CAUTION"]), r.ps(&["", " Title", " <b>\"&"]), inlines(r).replace('\n', " ")),
        20 => format!("{}\n\n: {}\n", words(r), inlines(r).replace('\n', " ")),
        21 => format!(">>>\n{}>>>\n", block(r, depth - 1)),
        22 => format!("$$\n{}\n$$\n", words(r)),
        23 => format!("{}\n{}", words(r), block(r, depth - 1)), // lazy / interrupting
        24 => format!("- {}\n\n      {}\n", words(r), words(r)),
        _ => format!("{}\n", r.ps(HOSTILE)),
    }
}

pub fn grammar_doc(r: &mut Rng) -> String {
    let n = r.range(1, 6);
    let mut s = String::new();
    if r.chance(1, 12) {
        s.push_str("---\ntitle: x\n---\n");
    }
    for _ in 0..n {
        s.push_str(&block(r, 3));
        if r.chance(3, 4) {
            s.push('\n');
        }
    }
    s
}

/// A table `cols` columns wide followed by `rows` one-cell rows: with cols * rows above 500 000 the
/// parser's auto-completion cap is reached inside the table.
pub fn cell_cap_table(cols: usize, rows: usize) -> String {
    let mut md = String::new();
    md.push_str(&"|a".repeat(cols));
    md.push_str("|\n");
    md.push_str(&"|-".repeat(cols));
    md.push_str("|\n");
    for _ in 0..rows {
        md.push_str("|x\n");
    }
    md.push_str("\nafter\n");
    md
}

pub fn palette_doc(r: &mut Rng) -> String {
    let n = r.range(1, 14);
    let mut s = String::new();
    for _ in 0..n {
        s.push_str(r.ps(PALETTE));
        if r.chance(1, 6) {
            s.push_str(r.ps(&[" ", "\n", "\n\n", ""]));
        }
    }
    s
}

/// Arbitrary valid UTF-8 including controls, NUL, BOM and mixed line endings.
pub fn bytes_doc(r: &mut Rng) -> String {
    let n = r.range(0, 40);
    let mut s = String::new();
    for _ in 0..n {
        match r.below(8) {
            0 => s.push(char::from_u32(r.below(0x20) as u32).unwrap()),
            1 => s.push(*r.pick(&['\n', '\r', '\t', ' ', '\u{0}', '\u{feff}', '\u{7f}', '\u{85}'])),
            2 => s.push(*r.pick(&['é', '世', '𝄞', '\u{2028}', '\u{a0}', 'İ', '\u{212a}', '\u{fffd}', '\u{10ffff}'])),
            _ => s.push(r.range(0x20, 0x7e) as u8 as char),
        }
    }
    s
}

pub struct Corpus {
    pub docs: Vec<String>,
}

impl Corpus {
    pub fn load() -> Corpus {
        let mut docs = vec![];
        for p in [
            "/repo/README.md",
            "/repo/script/progit.md",
            "/repo/src/tests/fixtures/alerts.md",
            "/repo/src/tests/fixtures/description_lists.md",
            "/repo/src/tests/fixtures/math_code.md",
            "/repo/src/tests/fixtures/math_dollars.md",
            "/repo/src/tests/fixtures/multiline_alerts.md",
            "/repo/src/tests/fixtures/multiline_blockquote.md",
            "/repo/src/tests/fixtures/wikilinks_title_after_pipe.md",
            "/repo/src/tests/fixtures/wikilinks_title_before_pipe.md",
        ] {
            let p = p.replacen("/repo", &crate::util::repo_root(), 1);
            if let Ok(s) = std::fs::read_to_string(&p) {
                docs.push(s);
            }
        }
        Corpus { docs }
    }
    /// A random run of consecutive lines from a corpus file.
    pub fn slice(&self, r: &mut Rng) -> String {
        if self.docs.is_empty() {
            return grammar_doc(r);
        }
        let d = r.pick(&self.docs);
        let lines: Vec<&str> = d.lines().collect();
        if lines.is_empty() {
            return String::new();
        }
        let start = r.below(lines.len());
        let n = r.range(1, 30).min(lines.len() - start);
        let mut s = lines[start..start + n].join("\n");
        s.push('\n');
        s
    }
}

/// A document far down a long file and far along a long line (many-digit source positions).
pub fn far_doc(r: &mut Rng) -> String {
    let lines = *r.pick(&[99usize, 120, 1000, 1500]);
    let mut s = String::new();
    for i in 0..lines {
        s.push_str(if i % 7 == 6 { "\n" } else { "filler\n" });
    }
    s.push('\n');
    let pad = *r.pick(&[98usize, 120, 1100]);
    s.push_str(&"word ".repeat(pad / 5));
    s.push_str(&inline(r, 2));
    s.push(' ');
    s.push_str(&inline(r, 2));
    s.push_str("\n\n");
    s.push_str(&block(r, 2));
    s
}

/// Deeply nested containers (block quotes, bullet and ordered items mixed, 12 to 60 levels) around a
/// leaf with nested inlines: renderer state that depends on depth (indentation, stacks, caps).
pub fn deep_doc(r: &mut Rng) -> String {
    let depth = *r.pick(&[12usize, 19, 21, 24, 33, 60]);
    let mut first = String::new();
    let mut cont = String::new();
    for _ in 0..depth {
        match r.below(4) {
            0 | 1 => {
                first.push_str("> ");
                cont.push_str("> ");
            }
            2 => {
                first.push_str("- ");
                cont.push_str("  ");
            }
            _ => {
                first.push_str("1. ");
                cont.push_str("   ");
            }
        }
    }
    let mut s = String::new();
    s.push_str(&first);
    s.push_str("deeply *nested **text** with `code`* and ");
    s.push_str(&inline(r, 2));
    s.push('\n');
    if r.chance(1, 2) {
        s.push_str(&cont);
        s.push('\n');
        s.push_str(&cont);
        s.push_str("second paragraph\n");
    }
    s.push('\n');
    let k = *r.pick(&[10usize, 22, 40]);
    s.push_str(&"*_".repeat(k));
    s.push_str("x");
    s.push_str(&"_*".repeat(k));
    s.push('\n');
    s
}

/// The mixed stream most properties use.
pub fn mixed_doc(r: &mut Rng, corpus: &Corpus) -> (String, &'static str) {
    if r.chance(1, 40) {
        return (far_doc(r), "far");
    }
    if r.chance(1, 40) {
        return (deep_doc(r), "deep");
    }
    match r.below(10) {
        0..=3 => (grammar_doc(r), "grammar"),
        4..=6 => (palette_doc(r), "palette"),
        7 => (bytes_doc(r), "bytes"),
        _ => (corpus.slice(r), "corpus"),
    }
}
