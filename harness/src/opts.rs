//! Option vectors: every comrak option as data, so that generators, the wire format and
//! evidence all see the same thing.
use crate::rng::Rng;
use crate::util::hex;
use comrak::{ListStyleType, Options};

pub const BOOLS: &[&str] = &[
    // extension
    "strikethrough", "tagfilter", "table", "autolink", "tasklist", "superscript", "footnotes",
    "description_lists", "multiline_block_quotes", "alerts", "math_dollars", "math_code",
    "wikilinks_title_after_pipe", "wikilinks_title_before_pipe", "underline", "subscript", "spoiler",
    "greentext",
    // parse
    "smart", "relaxed_tasklist_matching", "relaxed_autolinks",
    // render
    "hardbreaks", "github_pre_lang", "full_info_string", "unsafe_", "escape", "sourcepos",
    "escaped_char_spans", "ignore_setext", "ignore_empty_links", "gfm_quirks", "prefer_fenced",
    "figure_with_caption", "tasklist_classes", "experimental_minimize_commonmark",
];

#[derive(Clone, Debug, PartialEq, Eq, Hash)]
pub struct Opts {
    pub bits: Vec<bool>,
    pub header_ids: Option<String>,
    pub front_matter_delimiter: Option<String>,
    pub default_info_string: Option<String>,
    pub width: usize,
    pub ol_width: usize,
    pub list_style: u8, // 0 dash, 1 plus, 2 star
}

impl Default for Opts {
    fn default() -> Opts {
        Opts {
            bits: vec![false; BOOLS.len()],
            header_ids: None,
            front_matter_delimiter: None,
            default_info_string: None,
            width: 0,
            ol_width: 0,
            list_style: 0,
        }
    }
}

impl Opts {
    pub fn idx(name: &str) -> usize {
        BOOLS.iter().position(|b| *b == name).unwrap_or_else(|| panic!("no option {}", name))
    }
    pub fn get(&self, name: &str) -> bool {
        self.bits[Opts::idx(name)]
    }
    pub fn set(&mut self, name: &str, v: bool) -> &mut Opts {
        let i = Opts::idx(name);
        self.bits[i] = v;
        self
    }
    pub fn with(mut self, name: &str, v: bool) -> Opts {
        self.set(name, v);
        self
    }
    /// All extensions on (the "all-extensions" option set).
    pub fn all_extensions() -> Opts {
        let mut o = Opts::default();
        for n in &BOOLS[..18] {
            if *n != "tagfilter" {
                o.set(n, true);
            }
        }
        o.set("wikilinks_title_before_pipe", false);
        o
    }
    pub fn gfm() -> Opts {
        let mut o = Opts::default();
        for n in ["strikethrough", "tagfilter", "table", "autolink", "tasklist", "github_pre_lang", "gfm_quirks"] {
            o.set(n, true);
        }
        o
    }
    pub fn random(r: &mut Rng) -> Opts {
        let mut o = Opts::default();
        // three densities so that both sparse and dense vectors occur
        let dens = *r.pick(&[1usize, 3, 6]);
        for i in 0..BOOLS.len() {
            o.bits[i] = r.chance(dens, 8);
        }
        // experimental_minimize_commonmark only matters for CommonMark; keep it rare
        if !r.chance(1, 8) {
            o.set("experimental_minimize_commonmark", false);
        }
        if r.chance(1, 3) {
            o.header_ids = Some(r.pick(&["", "user-content-", "h-"]).to_string());
        }
        if r.chance(1, 6) {
            o.front_matter_delimiter = Some(r.pick(&["---", "+++", "%%"]).to_string());
        }
        if r.chance(1, 6) {
            o.default_info_string = Some(r.pick(&["rust", "text x", "math"]).to_string());
        }
        if r.chance(1, 4) {
            o.width = *r.pick(&[1usize, 5, 20, 40, 72, 120]);
        }
        if r.chance(1, 4) {
            o.ol_width = *r.pick(&[1usize, 3, 6]);
        }
        o.list_style = r.below(3) as u8;
        o
    }
    pub fn to_comrak(&self) -> Options<'static> {
        let mut c = Options::default();
        let g = |n: &str| self.get(n);
        c.extension.strikethrough = g("strikethrough");
        c.extension.tagfilter = g("tagfilter");
        c.extension.table = g("table");
        c.extension.autolink = g("autolink");
        c.extension.tasklist = g("tasklist");
        c.extension.superscript = g("superscript");
        c.extension.footnotes = g("footnotes");
        c.extension.description_lists = g("description_lists");
        c.extension.multiline_block_quotes = g("multiline_block_quotes");
        c.extension.alerts = g("alerts");
        c.extension.math_dollars = g("math_dollars");
        c.extension.math_code = g("math_code");
        c.extension.wikilinks_title_after_pipe = g("wikilinks_title_after_pipe");
        c.extension.wikilinks_title_before_pipe = g("wikilinks_title_before_pipe");
        c.extension.underline = g("underline");
        c.extension.subscript = g("subscript");
        c.extension.spoiler = g("spoiler");
        c.extension.greentext = g("greentext");
        c.extension.header_ids = self.header_ids.clone();
        c.extension.front_matter_delimiter = self.front_matter_delimiter.clone();
        c.parse.smart = g("smart");
        c.parse.relaxed_tasklist_matching = g("relaxed_tasklist_matching");
        c.parse.relaxed_autolinks = g("relaxed_autolinks");
        c.parse.default_info_string = self.default_info_string.clone();
        c.render.hardbreaks = g("hardbreaks");
        c.render.github_pre_lang = g("github_pre_lang");
        c.render.full_info_string = g("full_info_string");
        c.render.unsafe_ = g("unsafe_");
        c.render.escape = g("escape");
        c.render.sourcepos = g("sourcepos");
        c.render.escaped_char_spans = g("escaped_char_spans");
        c.render.ignore_setext = g("ignore_setext");
        c.render.ignore_empty_links = g("ignore_empty_links");
        c.render.gfm_quirks = g("gfm_quirks");
        c.render.prefer_fenced = g("prefer_fenced");
        c.render.figure_with_caption = g("figure_with_caption");
        c.render.tasklist_classes = g("tasklist_classes");
        c.render.experimental_minimize_commonmark = g("experimental_minimize_commonmark");
        c.render.width = self.width;
        c.render.ol_width = self.ol_width;
        c.render.list_style = match self.list_style {
            0 => ListStyleType::Dash,
            1 => ListStyleType::Plus,
            _ => ListStyleType::Star,
        };
        c
    }
    /// Wire form: `<bits> <header_ids|none> <fm|none> <dis|none> <width> <ol_width> <list_style>`.
    pub fn wire(&self) -> String {
        let bits: String = self.bits.iter().map(|b| if *b { '1' } else { '0' }).collect();
        let o = |x: &Option<String>| match x {
            None => "none".to_string(),
            Some(s) => format!("s{}", hex(s.as_bytes())),
        };
        format!(
            "{} {} {} {} {} {} {}",
            bits,
            o(&self.header_ids),
            o(&self.front_matter_delimiter),
            o(&self.default_info_string),
            self.width,
            self.ol_width,
            self.list_style
        )
    }
    pub fn from_wire(toks: &[&str]) -> Option<Opts> {
        if toks.len() < 7 {
            return None;
        }
        let bits: Vec<bool> = toks[0].chars().map(|c| c == '1').collect();
        if bits.len() != BOOLS.len() {
            return None;
        }
        let o = |s: &str| -> Option<Option<String>> {
            if s == "none" {
                Some(None)
            } else {
                Some(Some(String::from_utf8(crate::util::unhex(&s[1..])?).ok()?))
            }
        };
        Some(Opts {
            bits,
            header_ids: o(toks[1])?,
            front_matter_delimiter: o(toks[2])?,
            default_info_string: o(toks[3])?,
            width: toks[4].parse().ok()?,
            ol_width: toks[5].parse().ok()?,
            list_style: toks[6].parse().ok()?,
        })
    }
    pub fn describe(&self) -> String {
        let mut on: Vec<String> = BOOLS.iter().zip(&self.bits).filter(|(_, b)| **b).map(|(n, _)| n.to_string()).collect();
        if let Some(h) = &self.header_ids {
            on.push(format!("header_ids={:?}", h));
        }
        if let Some(h) = &self.front_matter_delimiter {
            on.push(format!("front_matter={:?}", h));
        }
        if let Some(h) = &self.default_info_string {
            on.push(format!("default_info={:?}", h));
        }
        if self.width > 0 {
            on.push(format!("width={}", self.width));
        }
        if self.ol_width > 0 {
            on.push(format!("ol_width={}", self.ol_width));
        }
        if self.list_style > 0 {
            on.push(format!("list_style={}", self.list_style));
        }
        on.join(",")
    }
}
