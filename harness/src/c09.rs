//! C09: XML output is well-formed and mirrors the tree node for node.
//! K: real `format_xml` bytes vs the Lean model's `renderXml` on the same tree (parsed documents
//!    and directly built trees x random option vectors), plus the theorems' hypothesis
//!    (`litLeafT`) evaluated by the model on every tree.
//! S: on the REAL output: the Lean strict reader `readXml` must accept it and the element tree
//!    it returns must equal `xmlTree` of the same AST (same kinds, order, nesting; literals,
//!    destinations, titles, labels, info strings, escaped-tag payloads carried exactly).
//!    Every tree is checked alike; trees with an `EscapedTag` node were a listed finding class
//!    until the repair in /repo commit ce28ea3 (payload now the escaped attribute `tag`).
use crate::gen::Corpus;
use crate::htmlk::{gen_case, Src};
use crate::model::{Batch, Model};
use crate::opts::Opts;
use crate::report::Report;
use crate::rng::Rng;
use crate::ser::{kind_seq, ser_tree};
use crate::util::{diff_window, hex, show, unhex};
use crate::Cfg;
use comrak::format_xml;
use std::cell::RefCell;
use std::rc::Rc;

/// One class for every tree: no finding is listed for C09, so every S failure is a violation.
pub const SIG_ANY: &str = "any-tree";

struct Real {
    xml: Vec<u8>,
    tree_wire: String,
    kinds: Vec<&'static str>,
}

fn render(src: &Src, o: &Opts) -> Result<Real, String> {
    let c = o.to_comrak();
    src.with_root(o, |root| {
        let mut xml = Vec::new();
        format_xml(root, &c, &mut xml).unwrap();
        Real { xml, tree_wire: ser_tree(root), kinds: kind_seq(root) }
    })
}

/// Decodes the canonical one-line element tree of the driver into something readable.
fn show_xtree(s: &str) -> String {
    if s == "none" {
        return s.to_string();
    }
    let mut out = String::new();
    let toks: Vec<&str> = s.split(' ').collect();
    let txt = |h: &str| show(&unhex(h).unwrap_or_default());
    let mut i = 0;
    while i < toks.len() {
        match toks[i] {
            "E" => {
                out.push_str(&format!("({}", txt(toks.get(i + 1).unwrap_or(&"-"))));
                i += 2;
            }
            "A" => {
                out.push_str(&format!(" {}={:?}", txt(toks.get(i + 1).unwrap_or(&"-")), txt(toks.get(i + 2).unwrap_or(&"-"))));
                i += 3;
            }
            "T" => {
                out.push_str(&format!(" {:?}", txt(toks.get(i + 1).unwrap_or(&"-"))));
                i += 2;
            }
            "X" => {
                out.push(')');
                i += 1;
            }
            _ => i += 1,
        }
    }
    out
}

/// First position where two token sequences differ, with a little context, decoded.
fn xtree_diff(a: &str, b: &str) -> String {
    let (ta, tb): (Vec<&str>, Vec<&str>) = (a.split(' ').collect(), b.split(' ').collect());
    let n = ta.iter().zip(tb.iter()).take_while(|(x, y)| x == y).count();
    let lo = n.saturating_sub(6);
    format!(
        "element trees differ at token {}: read from real output ...{} | expected from the AST ...{}",
        n,
        show_xtree(&ta[lo..(n + 8).min(ta.len())].join(" ")),
        show_xtree(&tb[lo..(n + 8).min(tb.len())].join(" "))
    )
}

/// A document too large for the model (S only, on the Rust side): `format_xml` returns, and the
/// output has one element per node for the kinds counted. `large <doc input>` replays it.
pub fn check_large(rep: &mut Report, o: &Opts, md: &str) {
    use comrak::nodes::NodeValue;
    let input = format!("large {}", Src::Doc(md.to_string()).input(o));
    let c = o.to_comrak();
    rep.s_evals += 1;
    rep.count("large-documents");
    let r = std::panic::catch_unwind(std::panic::AssertUnwindSafe(|| {
        let arena = comrak::Arena::new();
        let root = comrak::parse_document(&arena, md, &c);
        let cells = root.descendants().filter(|n| matches!(n.data.borrow().value, NodeValue::TableCell)).count();
        let rows = root.descendants().filter(|n| matches!(n.data.borrow().value, NodeValue::TableRow(_))).count();
        let paras = root.descendants().filter(|n| matches!(n.data.borrow().value, NodeValue::Paragraph)).count();
        let mut x = Vec::new();
        let res = std::panic::catch_unwind(std::panic::AssertUnwindSafe(|| comrak::format_xml(root, &c, &mut x)));
        (cells, rows, paras, res.is_ok(), x)
    }));
    match r {
        Err(_) => rep.count("skipped-parse-panic"),
        Ok((_, _, _, false, _)) => rep.fail("xml-total", "panic", input, "format_xml panicked on a parsed document".into()),
        Ok((cells, rows, paras, true, x)) => {
            let cnt = |pat: &[u8]| x.windows(pat.len()).filter(|w| *w == pat).count();
            let got = (cnt(b"<table_cell"), cnt(b"<table_row"), cnt(b"<paragraph"));
            if got != (cells, rows, paras) {
                rep.fail("xml-mirrors-tree", SIG_ANY, input, format!("the tree has {} table cells, {} rows, {} paragraphs; the output has {:?} elements of these kinds", cells, rows, paras, got));
            }
        }
    }
}

pub fn push_case<'a>(bt: &mut Batch<'a>, rep: &mut Report, o: Opts, src: Src, srcname: &'static str) {
    let input = src.input(&o);
    let r = match render(&src, &o) {
        Err(p) => {
            if p.contains("parse_document") {
                // no tree, nothing to render: a parser panic is C01's subject, not an XML failure
                rep.count("skipped-parse-panic");
                if !rep.notes.iter().any(|n| n.starts_with("parse_document panicked")) {
                    rep.notes.push(format!("parse_document panicked on a generated document (outside C09, see C01); first: {}", input));
                }
            } else {
                rep.fail("xml-total", "panic", input, p);
            }
            return;
        }
        Ok(r) => r,
    };
    rep.count(&format!("gen-{}", srcname));
    rep.add("nodes", r.kinds.len() as u64);
    rep.add("xml-bytes", r.xml.len() as u64);
    if r.kinds.len() > 1 {
        rep.nontrivial(&(r.kinds.clone(), o.get("sourcepos")));
    }
    for k in &r.kinds {
        rep.count(&format!("kind-{}", k));
    }
    if o.get("sourcepos") {
        rep.count("opt-sourcepos-on");
    }
    let has_escaped_tag = r.kinds.iter().any(|k| *k == "escaped_tag");
    if has_escaped_tag {
        rep.count("trees-with-escaped_tag");
    }
    for (pat, key) in [(&b"&quot;"[..], "real-output-has-&quot;"), (b"&lt;", "real-output-has-&lt;"), (b"&amp;", "real-output-has-&amp;"), (b" info=\"", "real-output-has-info-attr"), (b" title=\"", "real-output-has-title-attr"), (b" label=\"", "real-output-has-label-attr"), (b"<escaped_tag tag=\"", "real-output-has-escaped_tag-tag-attr"), (b"<escaped_tag sourcepos=\"", "real-output-has-escaped_tag-sourcepos-then-tag")] {
        if r.xml.windows(pat.len()).any(|w| w == pat) {
            rep.count(key);
        }
    }
    if r.xml.windows(42).any(|w| w[0] == b'\n' && w[1..41].iter().all(|c| *c == b' ') && w[41] == b'<') {
        rep.count("real-output-reaches-indent-cap-40");
    }
    let sig: &'static str = SIG_ANY;
    // development aid: CVH_C09_DUMP=<file> appends "<has_escaped_tag> <hex of the real output>" per case
    // (used once to compare the Lean reader's verdicts with an independent XML parser)
    if let Ok(path) = std::env::var("CVH_C09_DUMP") {
        use std::io::Write as _;
        if let Ok(mut f) = std::fs::OpenOptions::new().create(true).append(true).open(path) {
            let _ = writeln!(f, "{} {}", if has_escaped_tag { 1 } else { 0 }, hex(&r.xml));
        }
    }

    // K: hypotheses of the theorems, evaluated by the model on this tree
    let i0 = input.clone();
    let from_doc = matches!(src, Src::Doc(_));
    // the string entry point must return what parse + format_xml return (all of it: it writes through a buffer)
    if let Src::Doc(md) = &src {
        let c = o.to_comrak();
        if let Ok(sx) = std::panic::catch_unwind(std::panic::AssertUnwindSafe(|| comrak::markdown_to_commonmark_xml(md, &c))) {
            rep.s_evals += 1;
            if sx.as_bytes() != r.xml.as_slice() {
                rep.fail("string-api-differs", "markdown_to_commonmark_xml", input.clone(), crate::util::diff_window(&r.xml, sx.as_bytes()).replace("real", "parse+format_xml").replace("model", "markdown_to_commonmark_xml"));
            }
        }
    }
    bt.push(format!("xmlshape {}", r.tree_wire), move |resp, rep| {
        rep.k_evals += 1;
        if resp != "1" {
            rep.disagree(
                "theorem-hypothesis-litLeaf",
                i0,
                format!("a literal-kind node has children ({}); xml_mirrors_tree and xml_balanced assume litLeafT", if from_doc { "parsed tree" } else { "built tree" }),
            );
        }
    });

    // K: byte equality of the real output with the model's rendering of the same tree
    let (i1, x1) = (input.clone(), r.xml.clone());
    bt.push(format!("xml {} {}", o.wire(), r.tree_wire), move |resp, rep| {
        rep.k_evals += 1;
        if resp != hex(&x1) {
            let m = unhex(resp).unwrap_or_default();
            rep.disagree("xml-bytes", i1, diff_window(&x1, &m));
        }
    });

    // S: the strict reader on the REAL bytes, compared with the element tree of the AST
    let read: Rc<RefCell<Option<String>>> = Rc::new(RefCell::new(None));
    let read2 = read.clone();
    bt.push(format!("xmlread {}", hex(&r.xml)), move |resp, _rep| {
        *read2.borrow_mut() = Some(resp.to_string());
    });
    let (i2, x2) = (input, r.xml);
    bt.push(format!("xmltree {} {}", o.wire(), r.tree_wire), move |resp, rep| {
        let got = read.borrow_mut().take();
        let got = match got {
            Some(g) => g,
            None => {
                rep.disagree("driver", i2, "xmlread gave no answer".into());
                return;
            }
        };
        rep.s_evals += 1;
        if got == "none" {
            rep.fail("xml-wellformed", sig, i2, format!("the strict reader rejects the real output: {}", show(&x2)));
            return;
        }
        rep.s_evals += 1;
        if got != resp {
            rep.fail("xml-mirrors-tree", sig, i2, format!("{}; real output: {}", xtree_diff(&got, resp), show(&x2)));
        }
    });
}

/// Small fixed corpus: the two repaired defects (info string, escaped-tag payload), every
/// attribute-carrying kind with hostile payloads.
const FIXED_DOCS: &[&str] = &[
    "```a\"b<c\nx\n```\n",
    "``` a&b>c \"d\"\n<&>\"\n```\n",
    "|a|\n",
    "~x~ and ~~y~~\n",
    "[t](</u\"<&> \"ti\\\"t<&>le\") ![i](/p \"a\\\"b\") [[w\"<&>]]\n",
    "> [!NOTE] ti\"t<le&\n> body\n",
    "x[^a\"<&]\n\n[^a\"<&]: note\n",
    "| a | b |\n|:-|-:|\n| `c\"<` | $m<&$ |\n",
    "- [x] done\n- [ ] todo\n\n1) one\n2) two\n",
    "<div a=\"b\">&amp;\n</div>\n\nt <b a=\"c\"> u\n\n# H \"q\" <&>\n\nTerm\n\n: Details\n",
    "$$x<y$$ and $`a&b`$ and ``` ``` ``` ```\n",
    "",
];

/// Directly built trees with `EscapedTag` payloads the parser never produces (the generators use
/// `~`, `~~`, `|` only): the four escaped characters, something looking like an attribute, a
/// payload looking like the end of the tag, the empty payload; childless and with a text child.
const FIXED_ESCAPED_TAG_PAYLOADS: &[&[u8]] = &[b"\"<&>|", b" a=\"b\" c='d'", b"/>", b">x</escaped_tag><evil", b"", b"tag=\"", b"\xc3\xa9 &amp; &#60;"];

pub fn run(cfg: &Cfg, rep: &mut Report) {
    let m = Model::from_env();
    let mut rng = Rng::new(cfg.seed ^ 0xC09);
    let corpus = Corpus::load();
    rep.rule = "documents from the grammar/palette/bytes/corpus generators and directly built trees (every kind incl. Raw, EscapedTag, hostile literals/info strings/titles/labels/alert titles; no children under literal kinds) x random option vectors (render.sourcepos on and off), plus a fixed corpus under all-extensions with sourcepos on/off, fixed EscapedTag trees with hostile payloads (the four escaped characters, attribute and tag look-alikes, empty) and block quotes / lists nested 19..300 deep (indentation cap); per case: real format_xml bytes = model bytes (K), strict reader accepts the real bytes and returns the element tree of the AST (S); distinct_nontrivial counts distinct (node-kind sequence, sourcepos bit) classes with more than the Document node".into();
    {
        let mut bt = Batch::new();
        for d in FIXED_DOCS {
            for spos in [false, true] {
                let mut o = Opts::all_extensions().with("sourcepos", spos).with("escaped_char_spans", spos);
                if d.starts_with('~') {
                    o.set("strikethrough", false);
                }
                push_case(&mut bt, rep, o, Src::Doc(d.to_string()), "fixed-corpus");
            }
        }
        for p in FIXED_ESCAPED_TAG_PAYLOADS {
            for spos in [false, true] {
                let o = Opts::default().with("sourcepos", spos);
                let h = hex(p);
                let leaf = format!("N document 1 1 1 9 N paragraph 1 1 1 9 N escaped_tag 1 1 1 2 {} E E E", h);
                let inner = format!("N document 1 1 1 9 N paragraph 1 1 1 9 N escaped_tag 1 1 1 9 {} N text 1 2 1 8 61223c E E E E", h);
                let root = format!("N escaped_tag 0 0 0 0 {} E", h);
                for w in [leaf, inner, root] {
                    push_case(&mut bt, rep, o.clone(), Src::Tree(w), "fixed-escaped-tag-tree");
                }
            }
        }
        // nesting deeper than 20 levels: the indentation cap min(indent, 40)
        for depth in [19usize, 20, 21, 22, 30, 64, 300] {
            let quotes = format!("{} x \"<&>\"\n", ">".repeat(depth));
            let lists = (0..depth.min(64)).map(|i| format!("{}- a\n", "  ".repeat(i))).collect::<String>();
            for d in [quotes, lists] {
                for spos in [false, true] {
                    let o = Opts::default().with("sourcepos", spos);
                    push_case(&mut bt, rep, o, Src::Doc(d.clone()), "deep-nesting");
                }
            }
        }
        bt.run(&m, rep);
    }
    // tables that reach the auto-completion cap (the parser stops completing rows there)
    for (cols, rows) in [(2000usize, 260usize), (700, 900)] {
        let md = crate::gen::cell_cap_table(cols, rows);
        check_large(rep, &Opts::all_extensions(), &md);
        check_large(rep, &Opts::gfm().with("sourcepos", true), &md);
    }
    let n = if cfg.tier_thorough { 120_000 } else if cfg.full { 30_000 } else { 5_000 };
    let mut done = 0;
    while done < n {
        let mut bt = Batch::new();
        for _ in 0..2000.min(n - done) {
            let (src, name) = gen_case(&mut rng, &corpus);
            let mut o = Opts::random(&mut rng);
            // the only option xml.rs reads is render.sourcepos: keep it balanced
            o.set("sourcepos", rng.chance(1, 2));
            if done < 2 || (name == "direct-tree" && rep.samples.len() < 4) {
                rep.sample(format!("{} opts [{}]", src.show(), o.describe()));
            }
            push_case(&mut bt, rep, o, src, name);
            done += 1;
        }
        bt.run(&m, rep);
    }
}

pub fn replay(kind: &str, input: &str) -> Result<Option<String>, String> {
    if let Some(rest) = input.strip_prefix("large ") {
        let mut rep = Report::new("C09");
        match Src::parse_input(rest) {
            Some((o, Src::Doc(md))) => check_large(&mut rep, &o, &md),
            _ => return Err("bad replay input".into()),
        }
        return Ok(rep.s_fail.first().map(|c| format!("{}: {}", c.kind, c.detail)));
    }
    let (o, src) = Src::parse_input(input).ok_or("bad replay input")?;
    let m = Model::from_env();
    let mut rep = Report::new("C09");
    let mut bt = Batch::new();
    push_case(&mut bt, &mut rep, o, src, "replay");
    bt.run(&m, &mut rep);
    for c in rep.s_fail.iter().chain(rep.k_disagree.iter()) {
        if kind.is_empty() || c.kind == kind {
            return Ok(Some(format!("{}: {}", c.kind, c.detail)));
        }
    }
    Ok(None)
}
