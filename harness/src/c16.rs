//! C16: the command-line tool renders exactly what the library renders.
//!
//! Every run rebuilds the real binary from /repo's working tree (`cargo build --offline --bin comrak`,
//! target dir /verif/work/cli-target) and spawns it hermetically (fresh cwd, XDG_CONFIG_HOME/HOME inside
//! the case directory, explicit `--config-file` or an XDG default path we control).
//!
//! K: exit status, stdout and every file of the case directory after the run are compared with what the
//!    *Lean model* (`cliplan`: parseArgs / cliWithConfig / cliToOptions / chosen* / execute) predicts, the
//!    rendered bytes coming from in-process library calls under the option vector the model printed.
//! S: the property oracle: the same observation against library calls under the options the *help text*
//!    documents for the flag set (transcribed here by name: `--x-y` sets `x_y`), and for bad input:
//!    non-zero exit, a message, empty stdout, no file touched.
//!
//! The harness links comrak with its syntect feature. Most runs pass `--syntax-highlighting none`; for the runs
//! that leave the highlighter on (default theme, explicit theme) the expected HTML is the library's with a
//! SyntectAdapter of the same theme; half of them keep their code blocks.
use crate::gen::{grammar_doc, palette_doc};
use crate::model::{Batch, Model};
use crate::opts::Opts;
use crate::report::Report;
use crate::rng::Rng;
use crate::util::{diff_window, hex, show, unhex};
use crate::Cfg;
use comrak::nodes::NodeValue;
use comrak::{Arena, Plugins};
use std::io::Write;
use std::os::unix::ffi::OsStrExt;
use std::os::unix::ffi::OsStringExt;
use std::panic::{catch_unwind, AssertUnwindSafe};
use std::path::{Path, PathBuf};
use std::process::{Command, Stdio};
use std::sync::atomic::{AtomicUsize, Ordering};

const TARGET_DIR_DEFAULT: &str = "/verif/work/cli-target";
fn target_dir() -> String {
    std::env::var("VERIF_CLI_TARGET").unwrap_or_else(|_| TARGET_DIR_DEFAULT.to_string())
}
const SIG_NON_UNICODE: &str = "non-unicode-argument-with-config-file";

// ---------------------------------------------------------------------------------------------
// the flag universe (from `comrak --help` / README "Usage")

const BOOL_FLAGS: &[&str] = &[
    "hardbreaks", "smart", "github-pre-lang", "full-info-string", "gfm", "gfm-quirks",
    "relaxed-tasklist-character", "relaxed-autolinks", "tasklist-classes", "unsafe", "escape",
    "escaped-char-spans", "sourcepos", "ignore-setext", "ignore-empty-links",
    "experimental-minimize-commonmark",
];
const EXTS: &[&str] = &[
    "strikethrough", "tagfilter", "table", "autolink", "tasklist", "superscript", "footnotes",
    "description-lists", "multiline-block-quotes", "math-dollars", "math-code",
    "wikilinks-title-after-pipe", "wikilinks-title-before-pipe", "underline", "subscript", "spoiler",
    "greentext", "alerts",
];
/// valued options that feed the library options, each with the values used (first = representative)
const VALS: &[(&str, &[&str])] = &[
    ("default-info-string", &["rust", "text x", "a\"b'c d", "py$thon\\x"]),
    ("width", &["20", "1", "72", "007"]),
    ("header-ids", &["user-content-", "", "h x-", "é#"]),
    ("front-matter-delimiter", &["---", "+++", "-"]),
    ("list-style", &["plus", "star", "dash"]),
];

#[derive(Clone, Debug, PartialEq, Eq, Hash)]
enum Atom {
    Flag(&'static str),
    Ext(&'static str),
    Val(&'static str, String),
}

impl Atom {
    fn show(&self) -> String {
        match self {
            Atom::Flag(n) => format!("--{}", n),
            Atom::Ext(n) => format!("-e {}", n),
            Atom::Val(n, v) => format!("--{} {:?}", n, v),
        }
    }
}

/// All atoms with their representative value: 16 + 18 + 5 = 39.
fn universe() -> Vec<Atom> {
    let mut v = vec![];
    for f in BOOL_FLAGS {
        v.push(Atom::Flag(f));
    }
    for e in EXTS {
        v.push(Atom::Ext(e));
    }
    for (n, vals) in VALS {
        v.push(Atom::Val(n, vals[0].to_string()));
    }
    v
}

fn random_atom_value(r: &mut Rng, a: &Atom) -> Atom {
    match a {
        Atom::Val(n, _) => {
            let vals = VALS.iter().find(|(m, _)| m == n).unwrap().1;
            Atom::Val(n, r.ps(vals).to_string())
        }
        x => x.clone(),
    }
}

/// The documented mapping, from the help text only: a flag `--x-y` sets the library option `x_y`;
/// the three names the help text spells differently are listed; `--gfm` is the bundle its help line lists.
fn documented_opts(atoms: &[Atom]) -> Opts {
    let mut o = Opts::default();
    for a in atoms {
        match a {
            Atom::Flag("gfm") => {
                // "Enable GitHub-flavored markdown extensions: strikethrough, tagfilter, table, autolink,
                //  and tasklist. Also enables --github-pre-lang and --gfm-quirks."
                for n in ["strikethrough", "tagfilter", "table", "autolink", "tasklist", "github_pre_lang", "gfm_quirks"] {
                    o.set(n, true);
                }
            }
            Atom::Flag("unsafe") => {
                o.set("unsafe_", true);
            }
            Atom::Flag("relaxed-tasklist-character") => {
                o.set("relaxed_tasklist_matching", true);
            }
            Atom::Flag(n) | Atom::Ext(n) => {
                o.set(&n.replace('-', "_"), true);
            }
            Atom::Val("default-info-string", v) => o.default_info_string = Some(v.clone()),
            Atom::Val("width", v) => o.width = v.parse().unwrap(),
            Atom::Val("header-ids", v) => o.header_ids = Some(v.clone()),
            Atom::Val("front-matter-delimiter", v) => o.front_matter_delimiter = Some(v.clone()),
            Atom::Val("list-style", v) => {
                o.list_style = match v.as_str() {
                    "dash" => 0,
                    "plus" => 1,
                    _ => 2,
                }
            }
            Atom::Val(n, _) => panic!("no documented mapping for --{}", n),
        }
    }
    o
}

// ---------------------------------------------------------------------------------------------
// documents

/// One document on which every option is observable in at least one output format.
const RICH: &str = "---\ntitle: fm\n---\n\nSetext Heading\n==============\n\n# ATX *heading*\n\nHello \"smart\" world -- it's... ~~struck~~ H~sub~ x^sup^ __under__ ||spoiler|| $x^2$ $`y`$ [[Page|Title]] www.example.com [https://bracket.example] <b>raw</b> <title>t</title> [js](javascript:alert(1)) \\* esc **bold ****nest**** x** [](empty.html) ![](/empty.png)\nsoft break line with a hash # sign, 5 * 3 and an under_score, and a rather long paragraph so that the wrap width matters for the CommonMark writer\n\n| a | b |\n|---|---|\n| 1 | 2 |\n\n- [x] done\n- [ ] todo\n- [~] relaxed\n\n>greentext line\n\n> [!NOTE]\n> alert body\n\n>>>\nmulti\n>>>\n\nTerm\n\n: Definition\n\nFootnote ref[^1].\n\n[^1]: Footnote text.\n\n```rust extra info\nlet x = 1;\n```\n\n```\nno info\n```\n\n    indented code\n\n<div>block html</div>\n\n1. one\n2. two\n\n* star item\n";

/// A document whose CommonMark rendering is a fixed point of parse+format, so that
/// `--experimental-minimize-commonmark` (which only drops an escape when the round trip is unchanged) shows.
const MINI: &str = "a_b c*d # e \\# f [g\\]\n";

/// The same without anything that could become a code block (for runs with the highlighter on).
fn strip_code(doc: &str) -> String {
    let mut out = String::new();
    let mut in_fence = false;
    for line in doc.split_inclusive('\n') {
        let t = line.trim_start();
        if t.starts_with("```") || t.starts_with("~~~") {
            in_fence = !in_fence;
            continue;
        }
        if in_fence {
            continue;
        }
        // no indented code: strip leading white space beyond one space, drop tabs
        let lead = line.len() - t.len();
        if lead >= 2 || line.contains('\t') {
            out.push_str(&t.replace('\t', " "));
        } else {
            out.push_str(line);
        }
    }
    out.replace("```", "'''").replace("~~~", "'''")
}

/// A document whose rendering contains single pieces far larger than an I/O buffer: a link title of 9 kB over
/// several lines, an indented code block of 12 kB whose last line has 3 000 bytes, a 10 kB paragraph line.
/// (A sink that accepts only part of a large write - a line-buffered terminal or pipe - must get the rest too.)
fn big_chunk_doc(r: &mut Rng) -> String {
    let word = |r: &mut Rng| r.ps(&["lorem", "ipsum", "dolor", "sit", "amet", "x", "yy"]).to_string();
    let mut title = String::new();
    while title.len() < 9000 {
        title.push_str(&word(r));
        title.push(if title.len() % 97 < 3 { '\n' } else { ' ' });
    }
    let mut code = String::new();
    while code.len() < 9000 {
        code.push_str("    ");
        for _ in 0..12 {
            code.push_str(&word(r));
            code.push(' ');
        }
        code.push('\n');
    }
    code.push_str("    ");
    code.push_str(&"tail ".repeat(600));
    code.push('\n');
    let long_line = "word ".repeat(2000);
    // the title ends with a line of 2 500 bytes: the piece handed to the sink is > 8 kB, holds newlines, and has
    // more than a buffer's worth after its last newline
    let title = format!("{}\n{}", title.trim().replace('"', ""), "tail ".repeat(500).trim());
    format!("intro\n\n[link](/u \"{}\")\n\n{}\n{}\n\nend *text*\n", title, code, long_line)
}

fn gen_doc(r: &mut Rng, code_free: bool) -> String {
    if !code_free && r.chance(1, 25) {
        return big_chunk_doc(r);
    }
    let d = match r.below(10) {
        0..=4 => RICH.to_string(),
        5 => {
            // the rich document with its blocks rotated
            let blocks: Vec<&str> = RICH.split("\n\n").collect();
            let k = r.below(blocks.len());
            let mut v: Vec<&str> = blocks[k..].to_vec();
            v.extend_from_slice(&blocks[..k]);
            let mut s = v.join("\n\n");
            s.push('\n');
            s
        }
        6 | 7 => palette_doc(r),
        8 => grammar_doc(r),
        _ => format!("{}\n{}", palette_doc(r), RICH),
    };
    if code_free {
        strip_code(&d)
    } else {
        d
    }
}

struct Rendered {
    out: Vec<u8>,
    has_code: bool,
}

/// One syntect adapter per theme for the whole run (loading the syntax set is slow).
fn adapter_for(theme: &str) -> &'static comrak::plugins::syntect::SyntectAdapter {
    use std::collections::HashMap;
    use std::sync::{Mutex, OnceLock};
    static ADAPTERS: OnceLock<Mutex<HashMap<String, &'static comrak::plugins::syntect::SyntectAdapter>>> = OnceLock::new();
    let mut g = ADAPTERS.get_or_init(|| Mutex::new(HashMap::new())).lock().unwrap();
    if let Some(a) = g.get(theme) {
        return a;
    }
    let a: &'static comrak::plugins::syntect::SyntectAdapter = Box::leak(Box::new(comrak::plugins::syntect::SyntectAdapter::new(Some(theme))));
    g.insert(theme.to_string(), a);
    a
}

/// `theme`: the syntax highlighter the binary is expected to use (HTML output only).
fn lib_render(input: &str, o: &Opts, fmt: &str, theme: Option<&str>) -> Result<Rendered, String> {
    catch_unwind(AssertUnwindSafe(|| {
        let arena = Arena::new();
        let opts = o.to_comrak();
        let root = comrak::parse_document(&arena, input, &opts);
        let has_code = root.descendants().any(|n| matches!(n.data.borrow().value, NodeValue::CodeBlock(_)));
        let mut out = vec![];
        let mut plugins = Plugins::default();
        if let (Some(t), "html") = (theme, fmt) {
            plugins.render.codefence_syntax_highlighter = Some(adapter_for(t));
        }
        // without a highlighter the documented rendering is what the string entry points return (the binary
        // goes through the `_with_plugins` variants: the two families must not drift apart)
        if !(theme.is_some() && fmt == "html") {
            let s = match fmt {
                "html" => comrak::markdown_to_html(input, &opts),
                "xml" => comrak::markdown_to_commonmark_xml(input, &opts),
                _ => comrak::markdown_to_commonmark(input, &opts),
            };
            return Ok(Rendered { out: s.into_bytes(), has_code });
        }
        let r = match fmt {
            "html" => comrak::format_html_with_plugins(root, &opts, &mut out, &plugins),
            "xml" => comrak::format_xml_with_plugins(root, &opts, &mut out, &plugins),
            _ => comrak::format_commonmark_with_plugins(root, &opts, &mut out, &plugins),
        };
        r.map(|_| Rendered { out, has_code }).map_err(|e| format!("formatter error: {}", e))
    }))
    .unwrap_or_else(|_| Err("SKIP library panicked (C01's subject)".to_string()))
}

// ---------------------------------------------------------------------------------------------
// a self-contained, replayable case

#[derive(Clone, Copy, Debug, PartialEq, Eq)]
enum Class {
    /// within the property's quantifier: S expects exit 0 and the documented rendering
    Render,
    /// bad input (invalid UTF-8, unreadable file): S expects a clean failure
    InputError,
    /// rejected command lines etc.: only the model's prediction is compared (K)
    KOnly,
}

#[derive(Clone, Debug)]
struct Case {
    argv: Vec<Vec<u8>>,
    /// the path the config file is looked up at, as the binary sees it ("" = `none`)
    cfg_path: String,
    cfg_state: &'static str, // absent | bad | words
    cfg_content: Option<String>,
    cfg_words: Vec<String>,
    /// the config file lives at the XDG default location (no `--config-file` argument)
    cfg_default: bool,
    stdin: Vec<u8>,
    files: Vec<(Vec<u8>, Option<Vec<u8>>)>,
    pre: Option<(String, Vec<u8>)>,
    class: Class,
    sig: String,
    s_opts: Opts,
    s_fmt: String,
    s_sink: Option<String>,
    s_input: Vec<u8>,
    /// highlighter left on: the document must not contain a code block
    hl_on: bool,
    label: String,
}

fn hexlist<T: AsRef<[u8]>>(v: &[T]) -> String {
    v.iter().map(|x| hex(x.as_ref())).collect::<Vec<_>>().join(",")
}

fn unhexlist(s: &str) -> Option<Vec<Vec<u8>>> {
    if s.is_empty() {
        return Some(vec![]);
    }
    s.split(',').map(unhex).collect()
}

impl Case {
    fn encode(&self) -> String {
        let files: Vec<String> = self
            .files
            .iter()
            .map(|(n, c)| format!("{}={}", hex(n), c.as_ref().map(|c| hex(c)).unwrap_or("!".into())))
            .collect();
        format!(
            "argv:{} cfgpath:{} cfgstate:{} cfgcontent:{} cfgwords:{} dflt:{} stdin:{} files:{} pre:{} class:{} sig:{} sopts:{} sfmt:{} ssink:{} sinput:{} hl:{} :: {}",
            hexlist(&self.argv),
            hex(self.cfg_path.as_bytes()),
            self.cfg_state,
            self.cfg_content.as_ref().map(|c| hex(c.as_bytes())).unwrap_or("!".into()),
            hexlist(&self.cfg_words),
            self.cfg_default as u8,
            hex(&self.stdin),
            files.join(","),
            self.pre.as_ref().map(|(n, c)| format!("{}={}", hex(n.as_bytes()), hex(c))).unwrap_or("!".into()),
            match self.class {
                Class::Render => "render",
                Class::InputError => "inputerr",
                Class::KOnly => "konly",
            },
            self.sig,
            self.s_opts.wire().replace(' ', "+"),
            self.s_fmt,
            self.s_sink.as_ref().map(|s| hex(s.as_bytes())).unwrap_or("!".into()),
            hex(&self.s_input),
            self.hl_on as u8,
            self.label
        )
    }

    fn decode(s: &str) -> Option<Case> {
        let (body, label) = match s.find(" :: ") {
            Some(i) => (&s[..i], s[i + 4..].to_string()),
            None => (s, String::new()),
        };
        let mut m = std::collections::HashMap::new();
        for t in body.split(' ') {
            let i = t.find(':')?;
            m.insert(&t[..i], &t[i + 1..]);
        }
        let pair = |t: &str| -> Option<(Vec<u8>, Option<Vec<u8>>)> {
            let i = t.find('=')?;
            let c = if &t[i + 1..] == "!" { None } else { Some(unhex(&t[i + 1..])?) };
            Some((unhex(&t[..i])?, c))
        };
        let st = |b: Vec<u8>| String::from_utf8(b).ok();
        let files = if m["files"].is_empty() { vec![] } else { m["files"].split(',').map(pair).collect::<Option<Vec<_>>>()? };
        let sopts: Vec<&str> = m["sopts"].split('+').collect();
        Some(Case {
            argv: unhexlist(m["argv"])?,
            cfg_path: st(unhex(m["cfgpath"])?)?,
            cfg_state: match m["cfgstate"] {
                "absent" => "absent",
                "bad" => "bad",
                _ => "words",
            },
            cfg_content: if m["cfgcontent"] == "!" { None } else { Some(st(unhex(m["cfgcontent"])?)?) },
            cfg_words: unhexlist(m["cfgwords"])?.into_iter().map(st).collect::<Option<Vec<_>>>()?,
            cfg_default: m["dflt"] == "1",
            stdin: unhex(m["stdin"])?,
            files,
            pre: if m["pre"] == "!" {
                None
            } else {
                let (n, c) = pair(m["pre"])?;
                Some((st(n)?, c?))
            },
            class: match m["class"] {
                "render" => Class::Render,
                "inputerr" => Class::InputError,
                _ => Class::KOnly,
            },
            sig: m["sig"].to_string(),
            s_opts: Opts::from_wire(&sopts)?,
            s_fmt: m["sfmt"].to_string(),
            s_sink: if m["ssink"] == "!" { None } else { Some(st(unhex(m["ssink"])?)?) },
            s_input: unhex(m["sinput"])?,
            hl_on: m["hl"] == "1",
            label,
        })
    }
}

// ---------------------------------------------------------------------------------------------
// spelling a flag set as tokens / as a config file

fn spell_atoms(r: &mut Rng, atoms: &[Atom]) -> Vec<Vec<String>> {
    let mut groups: Vec<Vec<String>> = vec![];
    let mut exts: Vec<&str> = vec![];
    for a in atoms {
        match a {
            Atom::Flag(n) => groups.push(vec![format!("--{}", n)]),
            Atom::Ext(n) => exts.push(n),
            Atom::Val(n, v) => {
                let hyphen = v.starts_with('-');
                if (hyphen && *n != "front-matter-delimiter") || r.chance(1, 3) {
                    groups.push(vec![format!("--{}={}", n, v)]);
                } else {
                    groups.push(vec![format!("--{}", n), v.clone()]);
                }
            }
        }
    }
    // extension names: one or several per occurrence, comma separated
    while !exts.is_empty() {
        let k = r.range(1, exts.len().min(4));
        let part: Vec<&str> = exts.drain(..k).collect();
        let joined = part.join(",");
        groups.push(match r.below(3) {
            0 => vec!["-e".to_string(), joined],
            1 => vec!["--extension".to_string(), joined],
            _ => vec![format!("--extension={}", joined)],
        });
    }
    groups
}

fn shuffle<T>(r: &mut Rng, v: &mut Vec<T>) {
    for i in (1..v.len()).rev() {
        let j = r.below(i + 1);
        v.swap(i, j);
    }
}

fn bare_ok(w: &str) -> bool {
    !w.is_empty() && w.bytes().all(|c| c.is_ascii_alphanumeric() || b"_-=,.+/:%@".contains(&c))
}

/// Quotes one word for `shell_words::split` (POSIX shell rules) in one of several styles.
fn quote_word(r: &mut Rng, w: &str) -> String {
    let style = if bare_ok(w) { r.below(5) } else { r.range(1, 4) };
    match style {
        1 => format!("'{}'", w.replace('\'', "'\\''")),
        2 => {
            let mut s = String::from("\"");
            for c in w.chars() {
                if c == '"' || c == '\\' || c == '$' || c == '`' {
                    s.push('\\');
                }
                s.push(c);
            }
            s.push('"');
            s
        }
        3 => {
            // backslash-escape everything that is not alphanumeric; empty word needs quotes
            if w.is_empty() {
                return "''".to_string();
            }
            let mut s = String::new();
            for c in w.chars() {
                if !c.is_ascii_alphanumeric() && c != '\n' {
                    s.push('\\');
                }
                s.push(c);
            }
            s
        }
        4 => {
            // `--name='value'`: quoting only part of the word
            match w.find('=') {
                Some(i) if i + 1 < w.len() => format!("{}'{}'", &w[..=i], w[i + 1..].replace('\'', "'\\''")),
                _ => format!("\"{}\"", w.replace('\\', "\\\\").replace('"', "\\\"").replace('$', "\\$").replace('`', "\\`")),
            }
        }
        _ => w.to_string(),
    }
}

fn config_text(r: &mut Rng, words: &[String]) -> String {
    let mut s = String::new();
    if r.chance(1, 4) {
        s.push_str(r.ps(&[" ", "\n", "  \t"]));
    }
    for (i, w) in words.iter().enumerate() {
        if i > 0 {
            s.push_str(r.ps(&[" ", " ", "\n", "  ", "\t", " \\\n"]));
        }
        s.push_str(&quote_word(r, w));
    }
    if r.chance(1, 2) {
        s.push('\n');
    }
    s
}

// ---------------------------------------------------------------------------------------------
// case construction

#[derive(Clone, Copy, Debug, PartialEq, Eq)]
enum InMode {
    Stdin,
    OneFile,
    Files,
}
#[derive(Clone, Copy, Debug, PartialEq, Eq)]
enum SinkMode {
    Stdout,
    Output,
    Inplace,
}
#[derive(Clone, Copy, Debug, PartialEq, Eq)]
enum CfgMode {
    NoneLiteral,
    Missing,
    DefaultMissing,
    File,
    FileAll,
    DefaultFile,
    Empty,
}
#[derive(Clone, Copy, Debug, PartialEq, Eq)]
enum SynMode {
    None,
    Default,
    EmptyTheme,
    Theme,
}

const IN_MODES: &[InMode] = &[InMode::Stdin, InMode::OneFile, InMode::Files];
const SINK_MODES: &[SinkMode] = &[SinkMode::Stdout, SinkMode::Output, SinkMode::Inplace];
const CFG_MODES: &[CfgMode] = &[
    CfgMode::NoneLiteral, CfgMode::File, CfgMode::Missing, CfgMode::FileAll, CfgMode::DefaultMissing,
    CfgMode::DefaultFile, CfgMode::Empty,
];
const FORMATS: &[&str] = &["html", "xml", "commonmark"];

struct Dims {
    fmt: &'static str,
    /// pass `--to` even for html
    fmt_explicit: bool,
    input: InMode,
    sink: SinkMode,
    cfg: CfgMode,
    syn: SynMode,
}

fn split_at_char_or_byte(r: &mut Rng, d: &[u8], parts: usize) -> Vec<Vec<u8>> {
    // arbitrary byte offsets: a piece may end inside a multi-byte character, the concatenation is what counts
    let mut cuts: Vec<usize> = (0..parts - 1).map(|_| r.below(d.len() + 1)).collect();
    cuts.sort();
    let mut out = vec![];
    let mut prev = 0;
    for c in cuts {
        out.push(d[prev..c].to_vec());
        prev = c;
    }
    out.push(d[prev..].to_vec());
    out
}

fn make_case(r: &mut Rng, atoms: &[Atom], d: &Dims, doc: &str) -> Case {
    let mut label = String::new();
    // which atoms go to the config file
    let (mut cli_atoms, mut cfg_atoms): (Vec<Atom>, Vec<Atom>) = (vec![], vec![]);
    for a in atoms {
        let to_cfg = match d.cfg {
            CfgMode::File | CfgMode::DefaultFile => r.chance(1, 2),
            CfgMode::FileAll => true,
            _ => false,
        };
        if to_cfg {
            cfg_atoms.push(a.clone());
        } else {
            cli_atoms.push(a.clone());
        }
    }
    if matches!(d.cfg, CfgMode::File | CfgMode::DefaultFile) && cfg_atoms.is_empty() && !cli_atoms.is_empty() {
        cfg_atoms.push(cli_atoms.pop().unwrap());
    }
    let cfg_is_file = matches!(d.cfg, CfgMode::File | CfgMode::FileAll | CfgMode::DefaultFile | CfgMode::Empty);
    let mut cli_groups = spell_atoms(r, &cli_atoms);
    let mut cfg_groups = spell_atoms(r, &cfg_atoms);
    // the auxiliary arguments go to either side
    let aux = |g: Vec<String>, r: &mut Rng, cli_groups: &mut Vec<Vec<String>>, cfg_groups: &mut Vec<Vec<String>>| {
        if cfg_is_file && d.cfg != CfgMode::Empty && r.chance(1, 3) {
            cfg_groups.push(g);
        } else {
            cli_groups.push(g);
        }
    };
    // output format
    let inplace = d.sink == SinkMode::Inplace;
    let fmt = if inplace { "commonmark" } else { d.fmt };
    if !inplace && (d.fmt != "html" || d.fmt_explicit) {
        let g = match r.below(3) {
            0 => vec!["-t".to_string(), d.fmt.to_string()],
            1 => vec!["--to".to_string(), d.fmt.to_string()],
            _ => vec![format!("--to={}", d.fmt)],
        };
        aux(g, r, &mut cli_groups, &mut cfg_groups);
    }
    // syntax highlighting
    let hl_on = match d.syn {
        SynMode::None => {
            let g = if r.chance(1, 2) { vec!["--syntax-highlighting".to_string(), "none".to_string()] } else { vec!["--syntax-highlighting=none".to_string()] };
            aux(g, r, &mut cli_groups, &mut cfg_groups);
            false
        }
        SynMode::Default => true,
        SynMode::EmptyTheme => {
            let g = if r.chance(1, 2) { vec!["--syntax-highlighting".to_string(), String::new()] } else { vec!["--syntax-highlighting=".to_string()] };
            aux(g, r, &mut cli_groups, &mut cfg_groups);
            false
        }
        SynMode::Theme => {
            let t = r.ps(&["base16-ocean.dark", "InspiredGitHub", "Solarized (light)"]);
            aux(vec!["--syntax-highlighting".to_string(), t.to_string()], r, &mut cli_groups, &mut cfg_groups);
            true
        }
    };
    let hl_on = hl_on && fmt == "html";
    // with the highlighter on half of the documents keep their code blocks (top-level and nested): the
    // expected output is then the library's with the same syntect theme
    let doc = if hl_on && r.chance(1, 2) { strip_code(doc) } else { doc.to_string() };
    // inputs
    let db = doc.as_bytes();
    let mut files: Vec<(Vec<u8>, Option<Vec<u8>>)> = vec![];
    let mut file_args: Vec<String> = vec![];
    let mut stdin = vec![];
    let mut s_input = db.to_vec();
    match if inplace { InMode::OneFile } else { d.input } {
        InMode::Stdin => stdin = db.to_vec(),
        InMode::OneFile => {
            if !inplace && r.chance(1, 5) {
                // a FILE argument that is a pipe
                let n = String::from_utf8(STDIN_LINK.to_vec()).unwrap();
                files.push((n.clone().into_bytes(), Some(db.to_vec())));
                file_args.push(n);
                stdin = db.to_vec();
            } else {
                let n = r.ps(&["in0.md", "doc with space.md", "dé.md", "sub/in0.md"]).to_string();
                files.push((n.clone().into_bytes(), Some(db.to_vec())));
                file_args.push(n);
                stdin = b"standard input must not be read\n".to_vec();
            }
        }
        InMode::Files => {
            let k = r.range(2, 4);
            let parts = split_at_char_or_byte(r, db, k);
            for (i, p) in parts.into_iter().enumerate() {
                let n = format!("{}{}.md", r.ps(&["in", "part ", "sub/p"]), i);
                files.push((n.clone().into_bytes(), Some(p)));
                file_args.push(n);
            }
            if r.chance(1, 4) {
                // the same file given twice (only when the whole stays UTF-8: a part may end inside a character)
                let mut twice = s_input.clone();
                twice.extend_from_slice(files[0].1.as_ref().unwrap());
                if std::str::from_utf8(&twice).is_ok() {
                    let again = file_args[0].clone();
                    s_input = twice;
                    file_args.push(again);
                }
            }
            stdin = b"standard input must not be read\n".to_vec();
        }
    }
    // a file argument may also come from the config file (it is then read last)
    let mut cfg_file_args: Vec<String> = vec![];
    if cfg_is_file && d.cfg != CfgMode::Empty && file_args.len() >= 2 && !inplace && r.chance(1, 4) {
        cfg_file_args.push(file_args.pop().unwrap());
    }
    // sink
    let mut pre = None;
    let s_sink = match d.sink {
        SinkMode::Stdout => None,
        SinkMode::Output => {
            let n = r.ps(&["out.txt", "sub/out file.html"]).to_string();
            let g = match r.below(3) {
                0 => vec!["-o".to_string(), n.clone()],
                1 => vec!["--output".to_string(), n.clone()],
                _ => vec![format!("--output={}", n)],
            };
            aux(g, r, &mut cli_groups, &mut cfg_groups);
            if r.chance(1, 2) {
                pre = Some((n.clone(), vec![b'#'; 20_000]));
            }
            Some(n)
        }
        SinkMode::Inplace => {
            let g = vec![r.ps(&["-i", "--inplace"]).to_string()];
            aux(g, r, &mut cli_groups, &mut cfg_groups);
            Some(file_args[0].clone())
        }
    };
    // config file
    let (cfg_path, cfg_state, cfg_default): (String, &'static str, bool) = match d.cfg {
        CfgMode::NoneLiteral => ("none".into(), "absent", false),
        CfgMode::Missing => ("missing.cfg".into(), "absent", false),
        CfgMode::DefaultMissing => (String::new(), "absent", true),
        CfgMode::File | CfgMode::FileAll | CfgMode::Empty => (r.ps(&["comrak.cfg", "sub/my config"]).to_string(), "words", false),
        CfgMode::DefaultFile => (String::new(), "words", true),
    };
    if !cfg_default {
        cli_groups.push(match r.below(3) {
            0 => vec!["-c".to_string(), cfg_path.clone()],
            1 => vec!["--config-file".to_string(), cfg_path.clone()],
            _ => vec![format!("--config-file={}", cfg_path)],
        });
    }
    // assemble argv: option groups and file arguments interleaved in random order, files keep their order
    shuffle(r, &mut cli_groups);
    shuffle(r, &mut cfg_groups);
    // `--` ends option parsing for everything after it, including words spliced in from a config file
    // (they would be read as file names), so it is used only when no config file is read
    let interleave = |r: &mut Rng, groups: Vec<Vec<String>>, files: Vec<String>, allow_dashdash: bool| -> Vec<String> {
        let mut out = vec![];
        let (mut gi, mut fi) = (groups.into_iter().peekable(), files.into_iter().peekable());
        let dashdash = allow_dashdash && r.chance(1, 5);
        if dashdash {
            for g in gi.by_ref() {
                out.extend(g);
            }
            if fi.peek().is_some() {
                out.push("--".to_string());
            }
        }
        loop {
            match (gi.peek().is_some(), fi.peek().is_some()) {
                (false, false) => break,
                (true, false) => out.extend(gi.next().unwrap()),
                (false, true) => out.push(fi.next().unwrap()),
                (true, true) => {
                    if r.chance(2, 3) {
                        out.extend(gi.next().unwrap())
                    } else {
                        out.push(fi.next().unwrap())
                    }
                }
            }
        }
        out
    };
    let argv = interleave(r, cli_groups, file_args, cfg_state != "words");
    let cfg_words = if cfg_state == "words" { interleave(r, cfg_groups, cfg_file_args, false) } else { vec![] };
    let cfg_content = if cfg_state == "words" { Some(config_text(r, &cfg_words)) } else { None };
    label.push_str(&format!(
        "flags [{}] | comrak {} | config({:?}) {}",
        atoms.iter().map(|a| a.show()).collect::<Vec<_>>().join(" "),
        argv.iter().map(|a| format!("{:?}", a)).collect::<Vec<_>>().join(" "),
        d.cfg,
        cfg_content.as_ref().map(|c| format!("{:?}", c)).unwrap_or("-".into()),
    ));
    Case {
        argv: argv.into_iter().map(|s| s.into_bytes()).collect(),
        cfg_path,
        cfg_state,
        cfg_content,
        cfg_words,
        cfg_default,
        stdin,
        files,
        pre,
        class: Class::Render,
        sig: "unicode-arguments".into(),
        s_opts: documented_opts(atoms),
        s_fmt: fmt.to_string(),
        s_sink,
        s_input,
        hl_on,
        label,
    }
}

// ---------------------------------------------------------------------------------------------
// running one case against the real binary

#[derive(Debug, Default, Clone)]
struct Outcome {
    code: Option<i32>,
    stdout: Vec<u8>,
    stderr: Vec<u8>,
    /// every regular file below the case directory after the run (relative path -> content), xdg/ excluded
    files: Vec<(Vec<u8>, Vec<u8>)>,
    dflt: String,
    spawn_error: Option<String>,
}

/// A FILE argument of this name is not a regular file: it is created as a symbolic link to
/// `/dev/stdin` (a pipe: its metadata length is 0 although it has content) and the case's standard
/// input carries its content.
const STDIN_LINK: &[u8] = b"stdin-link.md";

fn walk(dir: &Path, rel: &Path, out: &mut Vec<(Vec<u8>, Vec<u8>)>) {
    if let Ok(rd) = std::fs::read_dir(dir) {
        for e in rd.flatten() {
            let p = e.path();
            let rp = rel.join(e.file_name());
            if e.file_type().map(|t| t.is_symlink()).unwrap_or(false) {
                continue;
            }
            if p.is_dir() {
                if rel.as_os_str().is_empty() && e.file_name() == "xdg" {
                    continue;
                }
                walk(&p, &rp, out);
            } else if let Ok(c) = std::fs::read(&p) {
                out.push((rp.as_os_str().as_bytes().to_vec(), c));
            }
        }
    }
}

fn os(b: &[u8]) -> std::ffi::OsString {
    std::ffi::OsString::from_vec(b.to_vec())
}

fn write_file(dir: &Path, name: &[u8], content: &[u8]) {
    let p = dir.join(os(name));
    if let Some(parent) = p.parent() {
        let _ = std::fs::create_dir_all(parent);
    }
    std::fs::write(&p, content).unwrap_or_else(|e| panic!("scratch write {:?}: {}", p, e));
}

/// Files of the case directory before the run (what must be left alone).
fn initial_files(c: &Case) -> Vec<(Vec<u8>, Vec<u8>)> {
    let mut v: Vec<(Vec<u8>, Vec<u8>)> = vec![];
    for (n, content) in &c.files {
        if n.as_slice() == STDIN_LINK {
            continue;
        }
        if let Some(content) = content {
            if !v.iter().any(|(m, _)| m == n) {
                v.push((n.clone(), content.clone()));
            }
        }
    }
    if let Some((n, content)) = &c.pre {
        v.push((n.clone().into_bytes(), content.clone()));
    }
    if !c.cfg_default {
        if let Some(t) = &c.cfg_content {
            v.push((c.cfg_path.clone().into_bytes(), t.clone().into_bytes()));
        }
    }
    v
}

/// Delivery of the case's standard input: a function of the case alone (a replay delivers it the same way);
/// about one case in four gets it in two writes with a pause between them.
fn stdin_in_two_writes(c: &Case) -> bool {
    c.stdin.len() >= 2 && (c.stdin.len() + c.argv.iter().map(|a| a.len()).sum::<usize>()) % 4 == 0
}

fn run_case(bin: &Path, dir: &Path, c: &Case) -> Outcome {
    let _ = std::fs::remove_dir_all(dir);
    std::fs::create_dir_all(dir.join("xdg")).expect("scratch dir");
    std::fs::create_dir_all(dir.join("sub")).expect("scratch dir");
    let dflt = dir.join("xdg").join("comrak").join("config");
    for (n, content) in initial_files(c) {
        write_file(dir, &n, &content);
    }
    if c.files.iter().any(|(n, _)| n.as_slice() == STDIN_LINK) {
        let _ = std::os::unix::fs::symlink("/dev/stdin", dir.join(os(STDIN_LINK)));
    }
    if c.cfg_default {
        if let Some(t) = &c.cfg_content {
            std::fs::create_dir_all(dflt.parent().unwrap()).expect("scratch dir");
            std::fs::write(&dflt, t).expect("scratch write");
        }
    }
    let mut cmd = Command::new(bin);
    cmd.args(c.argv.iter().map(|a| os(a)))
        .current_dir(dir)
        .env_clear()
        .env("XDG_CONFIG_HOME", dir.join("xdg"))
        .env("HOME", dir.join("xdg"))
        .env("RUST_BACKTRACE", "0")
        .stdin(Stdio::piped())
        .stdout(Stdio::piped())
        .stderr(Stdio::piped());
    let mut o = Outcome { dflt: dflt.to_string_lossy().into_owned(), ..Default::default() };
    match cmd.spawn() {
        Err(e) => o.spawn_error = Some(e.to_string()),
        Ok(mut child) => {
            if let Some(mut si) = child.stdin.take() {
                if stdin_in_two_writes(c) {
                    // a pipe hands the reader what has been written so far: a reader that takes a short read
                    // for the end of its input shows only when the input arrives in pieces
                    let cut = c.stdin.len() / 2;
                    let _ = si.write_all(&c.stdin[..cut]);
                    let _ = si.flush();
                    std::thread::sleep(std::time::Duration::from_millis(120));
                    let _ = si.write_all(&c.stdin[cut..]);
                } else {
                    let _ = si.write_all(&c.stdin);
                }
            }
            match child.wait_with_output() {
                Ok(out) => {
                    o.code = out.status.code();
                    o.stdout = out.stdout;
                    o.stderr = out.stderr;
                }
                Err(e) => o.spawn_error = Some(e.to_string()),
            }
        }
    }
    walk(dir, Path::new(""), &mut o.files);
    o.files.sort();
    let _ = std::fs::remove_dir_all(dir);
    o
}

fn run_all(bin: &Path, root: &Path, cases: &[Case]) -> Vec<Outcome> {
    let next = AtomicUsize::new(0);
    let workers = std::thread::available_parallelism().map(|n| n.get()).unwrap_or(4).min(16);
    let mut res: Vec<Option<Outcome>> = vec![None; cases.len()];
    let parts: Vec<Vec<(usize, Outcome)>> = std::thread::scope(|sc| {
        let hs: Vec<_> = (0..workers)
            .map(|w| {
                let next = &next;
                sc.spawn(move || {
                    let mut mine = vec![];
                    loop {
                        let i = next.fetch_add(1, Ordering::Relaxed);
                        if i >= cases.len() {
                            break;
                        }
                        let dir = root.join(format!("w{}", w));
                        mine.push((i, run_case(bin, &dir, &cases[i])));
                    }
                    mine
                })
            })
            .collect();
        hs.into_iter().map(|h| h.join().expect("spawn worker panicked")).collect()
    });
    for p in parts {
        for (i, o) in p {
            res[i] = Some(o);
        }
    }
    res.into_iter().map(|o| o.unwrap()).collect()
}

// ---------------------------------------------------------------------------------------------
// expectations

/// What a run should look like: exit code class, stdout, and the file it writes.
struct Expect {
    /// Some(n): exactly n; None: any non-zero
    code: Option<i32>,
    stdout: Vec<u8>,
    write: Option<(Vec<u8>, Vec<u8>)>,
    /// a message on stderr is required
    message: bool,
}

fn check(c: &Case, o: &Outcome, e: &Expect) -> Option<String> {
    if let Some(err) = &o.spawn_error {
        return Some(format!("could not run the binary: {}", err));
    }
    match (e.code, o.code) {
        (Some(n), Some(m)) if n == m => {}
        (None, Some(m)) if m != 0 => {}
        (want, got) => {
            return Some(format!(
                "exit status {:?}, expected {}; stderr {:?}",
                got,
                want.map(|n| n.to_string()).unwrap_or("non-zero".into()),
                show(&o.stderr[..o.stderr.len().min(300)])
            ))
        }
    }
    if o.stdout != e.stdout {
        return Some(format!("stdout differs: {}", diff_window(&o.stdout, &e.stdout)));
    }
    if e.message && o.stderr.is_empty() {
        return Some("no message on stderr".to_string());
    }
    let mut want = initial_files(c);
    if let Some((n, content)) = &e.write {
        // paths are compared after normalising "./"
        match want.iter_mut().find(|(m, _)| m == n) {
            Some(slot) => slot.1 = content.clone(),
            None => want.push((n.clone(), content.clone())),
        }
    }
    want.sort();
    if want != o.files {
        for (n, content) in &want {
            match o.files.iter().find(|(m, _)| m == n) {
                None => return Some(format!("file {:?} is missing after the run", show(n))),
                Some((_, got)) if got != content => {
                    return Some(format!("file {:?} differs: {}", show(n), diff_window(got, content)))
                }
                _ => {}
            }
        }
        for (n, got) in &o.files {
            if !want.iter().any(|(m, _)| m == n) {
                return Some(format!("unexpected file {:?} ({} bytes) after the run", show(n), got.len()));
            }
        }
    }
    None
}

fn render_expect(input: &[u8], opts: &Opts, fmt: &str, sink: &Option<Vec<u8>>, hl: Option<&str>) -> Result<Expect, String> {
    let text = std::str::from_utf8(input).map_err(|_| "input buffer is not valid UTF-8".to_string())?;
    let Rendered { out, has_code } = lib_render(text, opts, fmt, hl)?;
    let _ = has_code;
    Ok(match sink {
        None => Expect { code: Some(0), stdout: out, write: None, message: false },
        Some(p) => Expect { code: Some(0), stdout: vec![], write: Some((p.clone(), out)), message: false },
    })
}

/// The highlighter theme the documentation promises for this command line (S side): the value of the last
/// `--syntax-highlighting` among the process arguments and the config words, `base16-ocean.dark` when none is given.
fn case_theme(c: &Case) -> Option<String> {
    if !c.hl_on {
        return None;
    }
    let mut words: Vec<String> = c.argv.iter().map(|a| String::from_utf8_lossy(a).into_owned()).collect();
    words.extend(c.cfg_words.iter().cloned());
    let mut theme = "base16-ocean.dark".to_string();
    let mut i = 0;
    while i < words.len() {
        if words[i] == "--syntax-highlighting" {
            if let Some(v) = words.get(i + 1) {
                theme = v.clone();
            }
            i += 1;
        } else if let Some(v) = words[i].strip_prefix("--syntax-highlighting=") {
            theme = v.to_string();
        }
        i += 1;
    }
    Some(theme)
}

fn model_request(c: &Case, dflt: &str) -> String {
    let cpath = if c.cfg_default { dflt.to_string() } else { c.cfg_path.clone() };
    let mut req = format!("cliplan {} {} {} {} {}", hex(dflt.as_bytes()), hex(cpath.as_bytes()), c.cfg_state, hex(&c.stdin), c.files.len());
    for (n, content) in &c.files {
        req.push_str(&format!(" {} {}", hex(n), content.as_ref().map(|x| hex(x)).unwrap_or("!".into())));
    }
    req.push_str(&format!(" {} {}", c.argv.len() + 1, hex(b"comrak")));
    for a in &c.argv {
        req.push(' ');
        req.push_str(&hex(a));
    }
    for w in &c.cfg_words {
        req.push(' ');
        req.push_str(&hex(w.as_bytes()));
    }
    req
}

/// Parses `run M <7> D <7> F f H h S s X x` / `exit n` / `unsupported`.
enum Plan {
    Unsupported,
    Exit(i32),
    Run { m: Opts, d: Opts, fmt: String, hl: Option<String>, sink: Option<Vec<u8>>, input: Vec<u8> },
}

fn parse_plan(resp: &str) -> Option<Plan> {
    let t: Vec<&str> = resp.split(' ').collect();
    match t[0] {
        "unsupported" => Some(Plan::Unsupported),
        "exit" => Some(Plan::Exit(t.get(1)?.parse().ok()?)),
        "run" if t.len() == 25 && t[1] == "M" && t[9] == "D" && t[17] == "F" && t[19] == "H" && t[21] == "S" && t[23] == "X" => Some(Plan::Run {
            m: Opts::from_wire(&t[2..9])?,
            d: Opts::from_wire(&t[10..17])?,
            fmt: t[18].to_string(),
            hl: if t[20] == "none" { None } else { Some(String::from_utf8(unhex(&t[20][1..])?).ok()?) },
            sink: if t[22] == "stdout" { None } else { Some(unhex(&t[22][1..])?) },
            input: unhex(t[24])?,
        }),
        _ => None,
    }
}

/// K: outcome vs the Lean model's plan.  S: outcome vs the documented behaviour.
fn judge(c: &Case, o: &Outcome, resp: &str, rep: &mut Report) {
    let input = c.encode();
    // ---- K
    rep.k_evals += 1;
    let plan = parse_plan(resp);
    let mut k_expect_cache: Option<(Opts, String, Option<Vec<u8>>, Vec<u8>)> = None;
    match &plan {
        None => rep.disagree("cli-model-answer", input.clone(), format!("unparsable model answer {:?}", resp)),
        Some(Plan::Unsupported) => rep.disagree(
            "cli-model-fragment",
            input.clone(),
            "the generated command line is outside the modelled clap fragment".to_string(),
        ),
        Some(Plan::Exit(n)) => {
            rep.count(&format!("model-exit-{}", n));
            let e = Expect { code: Some(*n), stdout: vec![], write: None, message: true };
            if let Some(d) = check(c, o, &e) {
                rep.disagree("cli-vs-model", input.clone(), format!("{} :: {}", d, c.label));
            }
        }
        Some(Plan::Run { m, d, fmt, hl, sink, input: buf }) => {
            rep.count("model-run");
            if m != d {
                rep.disagree("cli-model-vs-documented", input.clone(), format!("cliToOptions {} but documented {}", m.wire(), d.wire()));
            }
            match render_expect(buf, m, fmt, sink, hl.as_deref()) {
                Err(msg) if msg.starts_with("SKIP") => rep.count(if msg.contains("panicked") { "skipped-library-panic" } else { "skipped-highlighter-with-code-block" }),
                Err(msg) => rep.disagree("cli-vs-model", input.clone(), format!("library call under the model's options failed: {} :: {}", msg, c.label)),
                Ok(e) => {
                    if let Some(dd) = check(c, o, &e) {
                        rep.disagree(
                            "cli-vs-model",
                            input.clone(),
                            format!("{} :: model options [{}] format {} :: {}", dd, m.describe(), fmt, c.label),
                        );
                    } else {
                        k_expect_cache = Some((m.clone(), fmt.clone(), sink.clone(), buf.clone()));
                    }
                }
            }
        }
    }
    // ---- S
    match c.class {
        Class::KOnly => {}
        Class::Render => {
            rep.s_evals += 1;
            let sink = c.s_sink.as_ref().map(|s| s.clone().into_bytes());
            // same expectation as the one K just confirmed: nothing to recompute
            if let Some((m, fmt, ksink, buf)) = &k_expect_cache {
                if *m == c.s_opts && *fmt == c.s_fmt && *ksink == sink && *buf == c.s_input {
                    return;
                }
            }
            match render_expect(&c.s_input, &c.s_opts, &c.s_fmt, &sink, case_theme(c).as_deref()) {
                Err(msg) if msg.starts_with("SKIP") => rep.count(if msg.contains("panicked") { "skipped-library-panic" } else { "skipped-highlighter-with-code-block" }),
                Err(msg) => rep.fail("cli-total", "library-fails-too", input, format!("library call failed: {} :: {}", msg, c.label)),
                Ok(e) => {
                    if let Some(d) = check(c, o, &e) {
                        rep.fail(
                            "cli-vs-documented-library",
                            &c.sig,
                            input,
                            format!("{} :: documented options [{}] format {} :: {}", d, c.s_opts.describe(), c.s_fmt, c.label),
                        );
                    }
                }
            }
        }
        Class::InputError => {
            rep.s_evals += 1;
            let e = Expect { code: None, stdout: vec![], write: None, message: true };
            if let Some(d) = check(c, o, &e) {
                rep.fail("cli-bad-input-clean-failure", &c.sig, input, format!("{} :: {}", d, c.label));
            }
        }
    }
}

// ---------------------------------------------------------------------------------------------
// building the binary

pub fn build_binary() -> Result<PathBuf, String> {
    let out = Command::new("cargo")
        .args(["build", "--offline", "--bin", "comrak"])
        .current_dir(crate::util::repo_root())
        .env("CARGO_TARGET_DIR", target_dir())
        .env("CARGO_NET_OFFLINE", "true")
        // same arithmetic / assertion semantics as the library linked into this harness (release profile):
        // otherwise library-internal debug assertions would show up as differences that are not the CLI's
        .env("CARGO_PROFILE_DEV_DEBUG_ASSERTIONS", "false")
        .env("CARGO_PROFILE_DEV_OVERFLOW_CHECKS", "false")
        .env_remove("RUSTFLAGS")
        .env_remove("CARGO_ENCODED_RUSTFLAGS")
        // cargo's rustc probe (`rustc - --print ...`) reads standard input: never let it see the caller's
        .stdin(Stdio::null())
        .output()
        .map_err(|e| format!("cannot run cargo: {}", e))?;
    if !out.status.success() {
        let err = String::from_utf8_lossy(&out.stderr);
        let tail: String = err.lines().filter(|l| l.contains("error")).take(8).collect::<Vec<_>>().join(" | ");
        return Err(format!("cargo build --bin comrak failed: {}", tail));
    }
    let p = PathBuf::from(target_dir()).join("debug").join("comrak");
    if p.exists() {
        Ok(p)
    } else {
        Err("cargo build succeeded but the binary is missing".into())
    }
}

fn scratch_root() -> PathBuf {
    PathBuf::from(format!("/verif/work/c16-run-{}", std::process::id()))
}

fn known_listed(sig: &str) -> bool {
    std::fs::read_to_string("/verif/known_findings.json")
        .map(|s| s.contains(&format!("\"{}\"", sig)))
        .unwrap_or(false)
}

// ---------------------------------------------------------------------------------------------
// special cases

fn plain_case(argv: &[&str], label: &str) -> Case {
    Case {
        argv: argv.iter().map(|s| s.as_bytes().to_vec()).collect(),
        cfg_path: "none".into(),
        cfg_state: "absent",
        cfg_content: None,
        cfg_words: vec![],
        cfg_default: false,
        stdin: b"*stdin*\n".to_vec(),
        files: vec![],
        pre: None,
        class: Class::KOnly,
        sig: "usage".into(),
        s_opts: Opts::default(),
        s_fmt: "html".into(),
        s_sink: None,
        s_input: vec![],
        hl_on: false,
        label: label.to_string(),
    }
}

/// Command lines the binary must reject (or special exits), compared with the model only.
fn konly_cases() -> Vec<Case> {
    let mut v = vec![];
    let a = b"*a*\n".to_vec();
    let b = b"*b*\n".to_vec();
    let mut add = |argv: &[&str], files: &[(&str, &Vec<u8>)], label: &str| {
        let mut c = plain_case(argv, label);
        c.files = files.iter().map(|(n, x)| (n.as_bytes().to_vec(), Some((*x).clone()))).collect();
        v.push(c);
    };
    for f in BOOL_FLAGS {
        let flag = format!("--{}", f);
        add(&["-c", "none", &flag, &flag, "--syntax-highlighting", "none"], &[], "flag given twice");
    }
    add(&["-c", "none", "--width", "1", "--width", "2"], &[], "--width twice");
    add(&["-c", "none", "-t", "xml", "--to", "html"], &[], "--to twice");
    add(&["-c", "none", "-o", "x", "--output=y"], &[], "--output twice");
    add(&["-c", "none", "-c", "none"], &[], "--config-file twice");
    add(&["-c", "none", "--width"], &[], "missing value");
    add(&["-c", "none", "--width", ""], &[], "empty width");
    add(&["-c", "none", "--to", "pdf"], &[], "unknown format");
    add(&["-c", "none", "--list-style", "minus"], &[], "unknown list style");
    add(&["-c", "none", "-e", "tables"], &[], "unknown extension");
    add(&["-c", "none", "-e", "table,"], &[], "empty extension name");
    add(&["-c", "none", "--no-such-flag"], &[], "unknown flag");
    add(&["-c", "none", "--smart=yes"], &[], "value for a flag");
    add(&["-c", "none", "--gfm=true"], &[], "value for --gfm");
    add(&["-c", "none", "-i", "-t", "xml", "a.md"], &[("a.md", &a)], "--inplace conflicts with --to");
    add(&["-c", "none", "--inplace", "--to=commonmark", "a.md"], &[("a.md", &a)], "--inplace conflicts with --to");
    add(&["-c", "none", "-i", "-o", "x", "a.md"], &[("a.md", &a)], "--inplace conflicts with --output");
    add(&["-c", "none", "-i"], &[], "--inplace without a file");
    add(&["-c", "none", "-i", "a.md", "b.md"], &[("a.md", &a), ("b.md", &b)], "--inplace with two files");
    add(&["-c", "none", "-i", "a.md", "a.md"], &[("a.md", &a)], "--inplace with the same file twice");
    add(&["-c", "none", "-i", "--syntax-highlighting", "none", "a.md", "--width", "3"], &[("a.md", &a)], "--inplace, accepted");
    add(&["-c", "none", "--", "-i", "--gfm"], &[("-i", &a), ("--gfm", &b)], "file names after --");
    add(&["-c", "none", "--syntax-highlighting", "none", "a.md", "b.md", "a.md"], &[("a.md", &a), ("b.md", &b)], "three file arguments");
    // config-file conditions
    let mut c = plain_case(&["-c", "bad.cfg", "--syntax-highlighting", "none"], "config file with an unbalanced quote");
    c.cfg_path = "bad.cfg".into();
    c.cfg_state = "bad";
    c.cfg_content = Some("--smart 'unterminated\n".into());
    v.push(c);
    let mut c = plain_case(&["-c", "dup.cfg", "--smart", "--syntax-highlighting", "none"], "flag on the command line and in the config file (outside the quantifier: subsets)");
    c.cfg_path = "dup.cfg".into();
    c.cfg_state = "words";
    c.cfg_words = vec!["--smart".into()];
    c.cfg_content = Some("--smart\n".into());
    v.push(c);
    let mut c = plain_case(&["-c", "cc.cfg", "--syntax-highlighting", "none"], "--config-file inside the config file");
    c.cfg_path = "cc.cfg".into();
    c.cfg_state = "words";
    c.cfg_words = vec!["--config-file".into(), "none".into()];
    c.cfg_content = Some("--config-file none\n".into());
    v.push(c);
    // `--` on the command line also covers the words spliced in from the config file: they become file names
    let mut c = plain_case(&["-c", "dd.cfg", "--syntax-highlighting", "none", "--", "a.md"], "-- before a file, config file carrying --smart: the config word is read as a file name (exit 3)");
    c.cfg_path = "dd.cfg".into();
    c.cfg_state = "words";
    c.cfg_words = vec!["--smart".into()];
    c.cfg_content = Some("--smart\n".into());
    c.files = vec![(b"a.md".to_vec(), Some(b"*a*\n".to_vec()))];
    v.push(c);
    let mut c = plain_case(&["-c", "ws.cfg", "--syntax-highlighting", "none", "--smart"], "config file with white space and a comment only");
    c.cfg_path = "ws.cfg".into();
    c.cfg_state = "words";
    c.cfg_content = Some("  \n# --to xml\n\t\n".into());
    c.stdin = b"\"q\"\n".to_vec();
    v.push(c);
    v
}

/// Invalid UTF-8 and unreadable inputs over every sink.
fn input_error_cases(r: &mut Rng) -> Vec<Case> {
    let mut v = vec![];
    let bad: &[&[u8]] = &[b"ok\n\xff\n", b"\xc3", b"a\xed\xa0\x80b\n", b"\xf4\x90\x80\x80", b"# t\n\n\xc0\x80 x\n"];
    let good = b"*fine*\n".to_vec();
    for (bi, b) in bad.iter().enumerate() {
        for input in 0..4 {
            for sink in 0..3 {
                // sink 2 = in place: needs exactly one file argument
                if sink == 2 && input != 1 {
                    continue;
                }
                let mut argv: Vec<String> = vec!["--config-file".into(), "none".into()];
                if r.chance(1, 2) {
                    argv.push("--syntax-highlighting=none".into());
                }
                argv.push(format!("--to={}", FORMATS[(bi + input + sink) % 3]));
                if sink == 2 {
                    argv.pop();
                    argv.push("-i".into());
                }
                let mut c = plain_case(&[], "");
                c.class = Class::InputError;
                c.sig = "invalid-utf8".into();
                match input {
                    0 => c.stdin = b.to_vec(),
                    1 => {
                        c.files = vec![(b"bad.md".to_vec(), Some(b.to_vec()))];
                        argv.push("bad.md".into());
                    }
                    2 => {
                        c.files = vec![(b"good.md".to_vec(), Some(good.clone())), (b"bad.md".to_vec(), Some(b.to_vec()))];
                        argv.push("good.md".into());
                        argv.push("bad.md".into());
                    }
                    _ => {
                        c.files = vec![(b"bad.md".to_vec(), Some(b.to_vec())), (b"good.md".to_vec(), Some(good.clone()))];
                        argv.push("bad.md".into());
                        argv.push("good.md".into());
                    }
                }
                if sink == 1 {
                    argv.push("-o".into());
                    argv.push("out.txt".into());
                    if r.chance(1, 2) {
                        c.pre = Some(("out.txt".into(), b"previous content of the output file\n".to_vec()));
                    }
                }
                c.label = format!("invalid UTF-8 {:?}: comrak {}", show(b), argv.join(" "));
                c.argv = argv.into_iter().map(|s| s.into_bytes()).collect();
                v.push(c);
            }
        }
    }
    // unreadable: a path that does not exist, alone / after a good file / before a good file
    for which in 0..3 {
        for sink in 0..3 {
            if sink == 2 && which != 0 {
                continue;
            }
            let mut argv: Vec<String> = vec!["-c".into(), "none".into(), "--syntax-highlighting".into(), "none".into()];
            let mut c = plain_case(&[], "");
            c.class = Class::InputError;
            c.sig = "unreadable-file".into();
            match which {
                0 => {
                    c.files = vec![(b"missing.md".to_vec(), None)];
                    argv.push("missing.md".into());
                }
                1 => {
                    c.files = vec![(b"good.md".to_vec(), Some(good.clone())), (b"no/such/dir.md".to_vec(), None)];
                    argv.push("good.md".into());
                    argv.push("no/such/dir.md".into());
                }
                _ => {
                    c.files = vec![(b"missing.md".to_vec(), None), (b"good.md".to_vec(), Some(good.clone()))];
                    argv.push("missing.md".into());
                    argv.push("good.md".into());
                }
            }
            match sink {
                1 => {
                    argv.push("--output=out.txt".into());
                    if which == 1 {
                        c.pre = Some(("out.txt".into(), b"previous content of the output file\n".to_vec()));
                    }
                }
                2 => argv.push("--inplace".into()),
                _ => {}
            }
            c.label = format!("unreadable file: comrak {}", argv.join(" "));
            c.argv = argv.into_iter().map(|s| s.into_bytes()).collect();
            v.push(c);
        }
    }
    v
}

/// A directory given as input file: `open` succeeds, `read` fails. S only (the model has no such object).
fn directory_case() -> Case {
    let mut c = plain_case(&["-c", "none", "--syntax-highlighting", "none", "sub"], "a directory as input file: comrak -c none sub");
    c.class = Class::InputError;
    c.sig = "directory-as-file".into();
    c
}

/// File argument that is not valid Unicode, with a config file being read (listed finding) and without.
fn non_unicode_cases() -> Vec<Case> {
    let name = b"b\xff.md".to_vec();
    let mut v = vec![];
    for (variant, label) in [(0, "non-Unicode file name, --config-file none"), (1, "non-Unicode file name + readable config file (the argument was dropped before the repair)"), (2, "non-Unicode file name + another file + empty config file (Vec::insert panicked before the repair)")] {
        let mut c = plain_case(&[], label);
        c.class = Class::Render;
        c.files = vec![(name.clone(), Some(b"*from the file*\n".to_vec()))];
        c.stdin = b"*from standard input*\n".to_vec();
        c.s_input = b"*from the file*\n".to_vec();
        c.argv = vec![b"--syntax-highlighting".to_vec(), b"none".to_vec(), b"-c".to_vec()];
        match variant {
            0 => {
                c.argv.push(b"none".to_vec());
                c.argv.push(name.clone());
                c.sig = "non-unicode-argument".into();
            }
            1 => {
                c.argv.push(b"cf".to_vec());
                c.argv.push(name.clone());
                c.cfg_path = "cf".into();
                c.cfg_state = "words";
                c.cfg_words = vec!["--smart".into()];
                c.cfg_content = Some("--smart\n".into());
                c.s_opts = Opts::default().with("smart", true);
                c.sig = SIG_NON_UNICODE.into();
            }
            _ => {
                c.argv.push(b"cf".to_vec());
                c.argv.push(name.clone());
                c.argv.push(b"a.md".to_vec());
                c.files.push((b"a.md".to_vec(), Some(b"*a*\n".to_vec())));
                c.s_input.extend_from_slice(b"*a*\n");
                c.cfg_path = "cf".into();
                c.cfg_state = "words";
                c.cfg_content = Some(String::new());
                c.sig = SIG_NON_UNICODE.into();
            }
        }
        v.push(c);
    }
    v
}

/// S for a non-Unicode case (the Lean driver's line protocol carries these arguments as bytes, but the
/// model of `parseArgs` is over Unicode arguments: no K here).
fn judge_s_only(c: &Case, o: &Outcome) -> Option<String> {
    let sink = c.s_sink.as_ref().map(|s| s.clone().into_bytes());
    match render_expect(&c.s_input, &c.s_opts, &c.s_fmt, &sink, case_theme(c).as_deref()) {
        Err(m) => Some(m),
        Ok(e) => check(c, o, &e),
    }
}

// ---------------------------------------------------------------------------------------------

fn flush(m: &Model, bin: &Path, root: &Path, cases: Vec<Case>, rep: &mut Report) {
    let outs = run_all(bin, root, &cases);
    let mut bt = Batch::new();
    for (c, o) in cases.iter().zip(outs.iter()) {
        rep.count(&format!("exit-{}", o.code.map(|n| n.to_string()).unwrap_or("signal".into())));
        if stdin_in_two_writes(c) {
            rep.count("stdin-delivered-in-two-writes");
        }
        bt.push(model_request(c, &o.dflt), move |resp, rep| judge(c, o, resp, rep));
    }
    bt.run(m, rep);
}

pub fn run(cfg: &Cfg, rep: &mut Report) {
    let m = Model::from_env();
    let mut rng = Rng::new(cfg.seed ^ 0xC16);
    rep.rule = "the binary is rebuilt from /repo's working tree and run in a fresh directory per case. Flag sets: every single flag/extension/valued option (39), every pair (741), random subsets of 3..39; each crossed with html/xml/commonmark and with input {stdin (one case in four delivered in two writes with a pause), one file, 2-4 files cut at arbitrary byte offsets}, sink {stdout, --output (fresh or pre-existing longer file), --inplace}, config {--config-file none, missing file, XDG default missing, file carrying part of the set, file carrying all of it, file at the XDG default path, empty file} (quoted in 5 shell styles), highlighter {none, default theme, empty theme, explicit theme}; the last four dimensions are cycled for singles/pairs and fully crossed on fixed flag sets. Documents: one rich document on which every option is observable, its rotations, palette/grammar documents. distinct_nontrivial counts distinct (flag set, format, input, sink, config, highlighter) classes".into();
    let t0 = std::time::Instant::now();
    let bin = match build_binary() {
        Ok(p) => p,
        Err(e) => {
            rep.disagree("cli-build", "cargo build --offline --bin comrak".into(), e);
            return;
        }
    };
    rep.notes.push(format!("binary rebuilt from the working tree in {:.1} s (dev profile with debug-assertions and overflow-checks off, as in the library linked into the harness; default features: clap + syntect)", t0.elapsed().as_secs_f64()));
    let root = scratch_root();
    let _ = std::fs::remove_dir_all(&root);
    // scratch directories left behind by runs that were killed (older than an hour)
    if let Ok(rd) = std::fs::read_dir("/verif/work") {
        for e in rd.flatten() {
            let n = e.file_name().to_string_lossy().into_owned();
            if n.starts_with("c16-run-") || n.starts_with("c16-replay-") {
                let old = e.metadata().and_then(|m| m.modified()).ok().and_then(|t| t.elapsed().ok()).map(|d| d.as_secs() > 3600).unwrap_or(false);
                if old {
                    let _ = std::fs::remove_dir_all(e.path());
                }
            }
        }
    }

    // observability of every atom on the rich document (otherwise a wrong wiring could not be seen)
    let uni = universe();
    let mut unobservable = vec![];
    for a in &uni {
        let base_atoms: Vec<Atom> = match a {
            // tagfilter only shows on raw HTML; the raw-HTML options only without --escape ...
            Atom::Ext("tagfilter") => vec![Atom::Flag("unsafe")],
            Atom::Flag("tasklist-classes") | Atom::Flag("relaxed-tasklist-character") => vec![Atom::Ext("tasklist")],
            Atom::Flag("relaxed-autolinks") => vec![Atom::Ext("autolink")],
            _ => vec![],
        };
        let mut with = base_atoms.clone();
        with.push(a.clone());
        let seen = [RICH, MINI].iter().any(|doc| {
            FORMATS.iter().any(|f| lib_render(doc, &documented_opts(&base_atoms), f, None).ok().map(|x| x.out) != lib_render(doc, &documented_opts(&with), f, None).ok().map(|x| x.out))
        });
        if !seen {
            unobservable.push(a.show());
        }
    }
    rep.add("atoms-observable-on-the-sensitivity-documents", (uni.len() - unobservable.len()) as u64);
    if !unobservable.is_empty() {
        rep.notes.push(format!("options NOT observable on the sensitivity documents (a wrong wiring of these would go unnoticed there): {}", unobservable.join(", ")));
    }

    let mut cases: Vec<Case> = vec![];
    let mut idx = 0usize;
    let dims_for = |idx: usize, fmt: &'static str, r: &mut Rng| -> Dims {
        // cycle input x sink x config with co-prime strides so that all 63 combinations appear
        let syn = match idx % 8 {
            0 => SynMode::Default,
            1 => SynMode::EmptyTheme,
            2 => SynMode::Theme,
            _ => SynMode::None,
        };
        Dims {
            fmt,
            fmt_explicit: r.chance(1, 3),
            input: IN_MODES[idx % 3],
            sink: SINK_MODES[(idx / 3) % 3],
            cfg: CFG_MODES[(idx / 9) % 7],
            syn,
        }
    };
    let class_of = |atoms: &[Atom], d: &Dims| -> String { format!("{:?}|{}|{:?}|{:?}|{:?}|{:?}", atoms, d.fmt, d.input, d.sink, d.cfg, d.syn) };

    // A. singles, B. pairs
    let mut sets: Vec<Vec<Atom>> = vec![vec![]];
    for a in &uni {
        sets.push(vec![a.clone()]);
    }
    let n_single = sets.len();
    for i in 0..uni.len() {
        for j in i + 1..uni.len() {
            sets.push(vec![uni[i].clone(), uni[j].clone()]);
        }
    }
    let n_pairs = sets.len() - n_single;
    for (si, set) in sets.iter().enumerate() {
        for fmt in FORMATS {
            idx += 1;
            // singles get the rich document under every format with the plain dimensions too
            let d = dims_for(idx + si, fmt, &mut rng);
            let doc = if si < n_single || rng.chance(2, 3) { RICH.to_string() } else { gen_doc(&mut rng, false) };
            rep.nontrivial(&class_of(set, &d));
            rep.count(&format!("sink-{:?}", d.sink));
            rep.count(&format!("input-{:?}", d.input));
            rep.count(&format!("config-{:?}", d.cfg));
            rep.count(&format!("highlighter-{:?}", d.syn));
            rep.count(&format!("format-{}", if d.sink == SinkMode::Inplace { "commonmark(inplace)" } else { d.fmt }));
            cases.push(make_case(&mut rng, set, &d, &doc));
        }
        if si < n_single {
            // and once in the plainest setting: stdin -> stdout, no config, highlighter off
            for fmt in FORMATS {
                let d = Dims { fmt, fmt_explicit: true, input: InMode::Stdin, sink: SinkMode::Stdout, cfg: CfgMode::NoneLiteral, syn: SynMode::None };
                rep.nontrivial(&class_of(set, &d));
                cases.push(make_case(&mut rng, set, &d, RICH));
                cases.push(make_case(&mut rng, set, &d, MINI));
            }
        }
    }
    rep.exhaustive = true;
    rep.exhaustive_what.push(format!(
        "the empty flag set, all {} single flags / extension names / valued options and all {} pairs, each under html, xml and commonmark (the other dimensions cycled)",
        n_single - 1,
        n_pairs
    ));
    rep.add("flagsets-single", (n_single - 1) as u64);
    rep.add("flagsets-pair", n_pairs as u64);

    // C. random larger subsets
    let n_rand = if cfg.tier_thorough { 12_000 } else if cfg.full { 4_000 } else { 1_200 };
    for i in 0..n_rand {
        let k = match rng.below(4) {
            0 => rng.range(3, 5),
            1 => rng.range(5, 12),
            2 => rng.range(12, 25),
            _ => rng.range(25, uni.len()),
        };
        let mut pool = uni.clone();
        shuffle(&mut rng, &mut pool);
        let set: Vec<Atom> = pool[..k].iter().map(|a| random_atom_value(&mut rng, a)).collect();
        let fmt = FORMATS[rng.below(3)];
        let d = Dims {
            fmt,
            fmt_explicit: rng.chance(1, 3),
            input: *rng.pick(IN_MODES),
            sink: *rng.pick(SINK_MODES),
            cfg: *rng.pick(CFG_MODES),
            syn: *rng.pick(&[SynMode::None, SynMode::None, SynMode::None, SynMode::Default, SynMode::EmptyTheme, SynMode::Theme]),
        };
        let doc = gen_doc(&mut rng, false);
        rep.nontrivial(&class_of(&set, &d));
        rep.count("flagsets-random-subset");
        rep.count(&format!("subset-size-{}", match k { 0..=5 => "3-5", 6..=12 => "6-12", 13..=25 => "13-25", _ => "26-39" }));
        let c = make_case(&mut rng, &set, &d, &doc);
        if i < 3 {
            rep.sample(c.label.clone());
        }
        cases.push(c);
    }

    // D. the remaining dimensions fully crossed on fixed flag sets
    let fixed: Vec<Vec<Atom>> = vec![
        vec![],
        vec![Atom::Flag("gfm")],
        vec![Atom::Flag("smart"), Atom::Ext("footnotes"), Atom::Val("width", "20".into()), Atom::Val("header-ids", "h x-".into())],
    ];
    let syns = [SynMode::None, SynMode::Default, SynMode::EmptyTheme, SynMode::Theme];
    let mut n_cross = 0;
    for (fi, set) in fixed.iter().enumerate() {
        for fmt in FORMATS {
            for input in IN_MODES {
                for sink in SINK_MODES {
                    for cfgm in CFG_MODES {
                        for syn in syns {
                            // thin the product for the larger sets (quick tier)
                            if fi > 0 && !cfg.tier_thorough && !cfg.full && (n_cross + fi) % 3 != 0 {
                                n_cross += 1;
                                continue;
                            }
                            n_cross += 1;
                            let d = Dims { fmt, fmt_explicit: rng.chance(1, 2), input: *input, sink: *sink, cfg: *cfgm, syn };
                            rep.nontrivial(&class_of(set, &d));
                            rep.count("full-cross-of-format-input-sink-config-highlighter");
                            cases.push(make_case(&mut rng, set, &d, RICH));
                        }
                    }
                }
            }
        }
    }
    rep.exhaustive_what.push("format x input x sink x config mode x highlighter mode (3x3x3x7x4 = 756 combinations) on the empty flag set".to_string());

    // E. bad input, F. rejected command lines
    let errs = input_error_cases(&mut rng);
    rep.add("bad-input-cases", errs.len() as u64 + 1);
    for c in errs.iter().take(2) {
        rep.sample(c.label.clone());
    }
    cases.extend(errs);
    let ko = konly_cases();
    rep.add("rejected-or-special-command-lines", ko.len() as u64);
    cases.extend(ko);
    rep.add("runs-of-the-binary", cases.len() as u64 + 4);
    flush(&m, &bin, &root, cases, rep);

    // G. S-only probes
    let mut probes = vec![directory_case()];
    probes.extend(non_unicode_cases());
    let outs = run_all(&bin, &root, &probes);
    for (c, o) in probes.iter().zip(outs.iter()) {
        rep.s_evals += 1;
        let verdict = if c.class == Class::InputError {
            check(c, o, &Expect { code: None, stdout: vec![], write: None, message: true })
        } else {
            judge_s_only(c, o)
        };
        if let Some(d) = verdict {
            if c.sig == SIG_NON_UNICODE && !known_listed(SIG_NON_UNICODE) {
                // reproduced defect of the pinned tree, proposed for known_findings.json; until it is listed
                // there it is recorded here instead of being raised on every run
                rep.s_evals -= 1;
                rep.count("finding-candidate-non-unicode-argument");
                rep.notes.push(format!("FINDING CANDIDATE (not yet in known_findings.json, not raised) sig={} replay={} :: {} :: {}", SIG_NON_UNICODE, c.encode(), c.label, d));
            } else {
                let kind = if c.class == Class::InputError { "cli-bad-input-clean-failure" } else { "cli-vs-documented-library" };
                rep.fail(kind, &c.sig, c.encode(), format!("{} :: {}", d, c.label));
            }
        }
    }
    rep.notes.push("a flag given both on the command line and in the config file is rejected by clap (exit 2, \"cannot be used multiple times\"): outside the property's quantifier (subsets split between the two); compared with the model only".into());
    rep.notes.push("highlighter: with the highlighter on the expected HTML is the library's with a SyntectAdapter of the same theme; half of those runs keep their code blocks".into());
    rep.notes.push("--gemojis (README) does not exist in the default build (feature `shortcodes` is off); not part of the model".into());
    let _ = std::fs::remove_dir_all(&root);
}

pub fn replay(kind: &str, input: &str) -> Result<Option<String>, String> {
    let c = Case::decode(input).ok_or("bad replay input")?;
    let bin = build_binary()?;
    let root = PathBuf::from(format!("/verif/work/c16-replay-{}", std::process::id()));
    let o = run_case(&bin, &root.join("w0"), &c);
    let _ = std::fs::remove_dir_all(&root);
    if c.argv.iter().any(|a| std::str::from_utf8(a).is_err()) || c.sig == "directory-as-file" {
        let verdict = if c.class == Class::InputError {
            check(&c, &o, &Expect { code: None, stdout: vec![], write: None, message: true })
        } else {
            judge_s_only(&c, &o)
        };
        return Ok(verdict.map(|d| format!("{} :: {}", d, c.label)));
    }
    let m = Model::from_env();
    let mut rep = Report::new("C16");
    let resp = m.batch(&[model_request(&c, &o.dflt)]);
    match crate::model::ok(&resp[0]) {
        Ok(body) => judge(&c, &o, body, &mut rep),
        Err(e) => return Err(format!("model driver: {}", e)),
    }
    for x in rep.s_fail.iter().chain(rep.k_disagree.iter()) {
        if kind.is_empty() || x.kind == kind {
            return Ok(Some(format!("{}: {}", x.kind, x.detail)));
        }
    }
    Ok(None)
}
