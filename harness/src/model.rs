//! Talks to the Lean driver (`comrak_model`) over the line protocol.
use std::io::{BufRead, BufReader, Write};
use std::process::{Command, Stdio};

pub struct Model {
    pub path: String,
}

impl Model {
    pub fn from_env() -> Model {
        let path = std::env::var("CVH_MODEL")
            .unwrap_or_else(|_| "/verif/lean/.lake/build/bin/comrak_model".to_string());
        Model { path }
    }

    /// Sends all requests, returns one response per request ("ok ..." / "err ...").
    pub fn batch(&self, reqs: &[String]) -> Vec<String> {
        if reqs.is_empty() {
            return vec![];
        }
        // Split across workers: the driver is single-threaded.
        let workers = std::thread::available_parallelism().map(|n| n.get()).unwrap_or(4).min(16);
        let chunk = (reqs.len() + workers - 1) / workers;
        let chunk = chunk.max(256);
        let mut out: Vec<Vec<String>> = Vec::new();
        std::thread::scope(|sc| {
            let mut hs = Vec::new();
            for part in reqs.chunks(chunk) {
                let path = self.path.clone();
                hs.push(sc.spawn(move || run_one(&path, part)));
            }
            for h in hs {
                out.push(h.join().expect("model worker panicked"));
            }
        });
        out.into_iter().flatten().collect()
    }
}

fn run_one(path: &str, reqs: &[String]) -> Vec<String> {
    // the driver binary is briefly absent while `lake build comrak_model` relinks it: retry for a while
    let mut tries = 0;
    let mut child = loop {
        match Command::new(path).stdin(Stdio::piped()).stdout(Stdio::piped()).stderr(Stdio::inherit()).spawn() {
            Ok(c) => break c,
            Err(e) => {
                tries += 1;
                if tries > 240 {
                    panic!("cannot start model driver {}: {}", path, e);
                }
                std::thread::sleep(std::time::Duration::from_millis(500));
            }
        }
    };
    let mut stdin = child.stdin.take().unwrap();
    let stdout = child.stdout.take().unwrap();
    let mut res = Vec::with_capacity(reqs.len());
    std::thread::scope(|sc| {
        sc.spawn(move || {
            let mut w = std::io::BufWriter::new(&mut stdin);
            for r in reqs {
                let _ = w.write_all(r.as_bytes());
                let _ = w.write_all(b"\n");
            }
            let _ = w.flush();
            drop(w);
            drop(stdin);
        });
        let rd = BufReader::new(stdout);
        for line in rd.lines() {
            res.push(line.unwrap_or_else(|_| "err io".to_string()));
        }
    });
    let _ = child.wait();
    while res.len() < reqs.len() {
        res.push("err driver-died".to_string());
    }
    res
}

/// Strips the "ok " prefix; any error is returned as Err.
pub fn ok(resp: &str) -> Result<&str, String> {
    if let Some(r) = resp.strip_prefix("ok ") {
        Ok(r)
    } else if resp == "ok" {
        Ok("")
    } else {
        Err(resp.to_string())
    }
}

/// A batch of requests, each with the check to run on its response.
pub struct Batch<'a> {
    reqs: Vec<String>,
    checks: Vec<Box<dyn FnOnce(&str, &mut crate::report::Report) + 'a>>,
}

impl<'a> Batch<'a> {
    pub fn new() -> Batch<'a> {
        Batch { reqs: vec![], checks: vec![] }
    }
    pub fn push<F: FnOnce(&str, &mut crate::report::Report) + 'a>(&mut self, req: String, f: F) {
        self.reqs.push(req);
        self.checks.push(Box::new(f));
    }
    pub fn len(&self) -> usize {
        self.reqs.len()
    }
    /// Runs the batch; a driver error on any request is recorded as a disagreement of kind "driver".
    pub fn run(self, m: &Model, rep: &mut crate::report::Report) {
        let resps = m.batch(&self.reqs);
        for ((req, chk), resp) in self.reqs.into_iter().zip(self.checks).zip(resps) {
            match ok(&resp) {
                Ok(body) => chk(body, rep),
                Err(e) => rep.disagree("driver", req, e),
            }
        }
    }
}
