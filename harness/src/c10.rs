//! C10: HTML output is balanced and properly nested. K: shared renderer correspondence.
//! S: the Lean `balanced` oracle (tag-stack machine over `lexHtml`) on the real output.
use crate::gen::Corpus;
use crate::htmlk::{gen_case, html_request, Src};
use crate::model::{Batch, Model};
use crate::opts::Opts;
use crate::report::Report;
use crate::rng::Rng;
use crate::util::{hex, show};
use crate::Cfg;

/// Options under which raw HTML is not passed through.
fn constrain(o: &mut Opts, r: &mut Rng) {
    // safe mode, escape mode; (inputs without raw HTML are covered by the generator flag below)
    if r.chance(1, 2) {
        o.set("unsafe_", false);
    } else {
        o.set("escape", true);
    }
}

pub fn push_case<'a>(bt: &mut Batch<'a>, rep: &mut Report, o: Opts, src: Src, srcname: &'static str) {
    let input = src.input(&o);
    match src.render(&o) {
        Err(p) => {
            if p.contains("parse_document") {
                rep.count("skipped-parse-panic"); // C01's subject
            } else {
                rep.fail("render-total", "panic", input, p)
            }
        }
        Ok(r) => {
            rep.count(&format!("gen-{}", srcname));
            rep.add("nodes", r.kinds.len() as u64);
            if r.kinds.len() > 1 {
                rep.nontrivial(&(r.kinds.clone(), o.bits.clone()));
            }
            for k in &r.kinds {
                rep.count(&format!("kind-{}", k));
            }
            // the string entry point must return what parse + format_html return (all of it: it writes through a buffer)
            if let Src::Doc(md) = &src {
                let c = o.to_comrak();
                if let Ok(sh) = std::panic::catch_unwind(std::panic::AssertUnwindSafe(|| comrak::markdown_to_html(md, &c))) {
                    rep.s_evals += 1;
                    if sh.as_bytes() != r.html.as_slice() {
                        rep.fail("string-api-differs", "markdown_to_html", input.clone(), crate::util::diff_window(&r.html, sh.as_bytes()).replace("real", "parse+format_html").replace("model", "markdown_to_html"));
                    }
                }
            }
            let req = html_request(&o, &r);
            let i0 = input.clone();
            bt.push(format!("balshape {}", r.tree_wire), move |resp, rep| {
                rep.k_evals += 1;
                if resp != "1" {
                    rep.disagree("theorem-hypothesis-balShape", i0, "the parsed tree does not satisfy balShapeT, the hypothesis of html_balanced".into());
                }
            });
            let (i1, i2) = (input.clone(), input);
            let (h1, h2) = (r.html.clone(), r.html);
            bt.push(req, move |resp, rep| {
                rep.k_evals += 1;
                if resp != hex(&h1) {
                    let m = crate::util::unhex(resp).unwrap_or_default();
                    rep.disagree("html-bytes", i1, crate::util::diff_window(&h1, &m));
                }
            });
            // Raw nodes are passed through under every option: outside the property's precondition.
            if r.kinds.iter().any(|k| *k == "raw") {
                rep.count("skipped-oracle-raw-node");
                return;
            }
            bt.push(format!("htmlbal {}", hex(&h2)), move |resp, rep| {
                rep.s_evals += 1;
                if resp != "1" {
                    rep.fail("html-balanced", resp, i2, format!("output not balanced ({}): {}", resp, show(&h2)));
                }
            });
        }
    }
}

pub fn run(cfg: &Cfg, rep: &mut Report) {
    let m = Model::from_env();
    let mut rng = Rng::new(cfg.seed ^ 0xC10);
    let corpus = Corpus::load();
    rep.rule = "documents from the grammar/palette/bytes/corpus generators x random option vectors with raw HTML not passed through (unsafe_=false or escape=true); distinct_nontrivial counts distinct (node-kind sequence, option bits) classes with more than the Document node".into();
    // documents whose rendering is larger than an I/O buffer (the string entry points write through one)
    {
        let mut bt = Batch::new();
        let nlong = if cfg.tier_thorough { 60 } else { 12 };
        for i in 0..nlong {
            let mut md = String::new();
            if i % 3 == 0 {
                md.push_str("> ");
            }
            let want = 9_000 + 4_000 * (i % 4);
            while md.len() < want {
                let (d, _) = crate::gen::mixed_doc(&mut rng, &corpus);
                if d.len() > 400 || d.contains('\u{0}') {
                    continue;
                }
                md.push_str(&d);
                md.push_str("\n\n");
            }
            let mut o = Opts::random(&mut rng);
            constrain(&mut o, &mut rng);
            push_case(&mut bt, rep, o, Src::Doc(md), "long-concatenation");
        }
        bt.run(&m, rep);
    }
    let n = if cfg.tier_thorough { 150_000 } else if cfg.full { 30_000 } else { 24_000 };
    let mut done = 0;
    while done < n {
        let mut bt = Batch::new();
        let chunk = 3000.min(n - done);
        for _ in 0..chunk {
            let (src, name) = gen_case(&mut rng, &corpus);
            let mut o = Opts::random(&mut rng);
            constrain(&mut o, &mut rng);
            if done < 3 || (done < 400 && name == "direct-tree" && rep.samples.len() < 5) {
                rep.sample(format!("{} opts [{}]", src.show(), o.describe()));
            }
            push_case(&mut bt, rep, o, src, name);
            done += 1;
        }
        bt.run(&m, rep);
    }
}

pub fn replay(kind: &str, input: &str) -> Result<Option<String>, String> {
    let (o, src) = Src::parse_input(input).ok_or("bad replay input")?;
    let m = Model::from_env();
    let mut rep = Report::new("C10");
    let mut bt = Batch::new();
    push_case(&mut bt, &mut rep, o, src, "replay");
    bt.run(&m, &mut rep);
    for c in rep.s_fail.iter().chain(rep.k_disagree.iter()) {
        if kind.is_empty() || c.kind == kind {
            return Ok(Some(format!("{}: {}", c.kind, c.detail)));
        }
    }
    Ok(None)
}
