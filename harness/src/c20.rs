//! C20: front matter is carried verbatim and never leaks into the document.
//! K: the real `split_off_front_matter` (hook) vs the Lean model `splitOffFrontMatter` (the line-by-line
//!    function of /repo commit d92265f), exhaustively over short strings on {delimiter bytes, other,
//!    LF, CR, BOM} for three delimiters and on random delimiters/bodies/line endings; the real
//!    parser's FrontMatter literal and tapped process_line calls (line, offset, line number) vs the
//!    model's `parseDoc`; the model's `lines` (the vocabulary of the theorems) vs `ref_lines`.
//! S: on the real code, against an independent line-based reading of the statement (`ref_split`;
//!    lines end with LF, CRLF or CR):
//!    recognised exactly; CommonMark = front matter verbatim + rest on its own; HTML/XML of the
//!    document = HTML/XML of the rest on its own (sourcepos lines shifted); text that merely
//!    resembles front matter renders as with the option off.
use crate::c08::{fmt_lines, fmt_preludes, real_tap, BOM};
use crate::gen::{mixed_doc, Corpus};
use crate::model::{Batch, Model};
use crate::opts::Opts;
use crate::report::Report;
use crate::rng::Rng;
use crate::util::{diff_window, hex, show, unhex};
use crate::Cfg;
use comrak::nodes::NodeValue;
use comrak::verif_parser_hooks::split_off_front_matter;
use comrak::{format_commonmark, format_html, format_xml, parse_document, Arena};
use std::panic::{catch_unwind, AssertUnwindSafe};

// ------------------------------------------------------------------ K

fn push_split<'a>(bt: &mut Batch<'a>, rep: &mut Report, d: &str, s: &str) {
    let input = format!("split {} {}", hex(d.as_bytes()), hex(s.as_bytes()));
    let real = catch_unwind(AssertUnwindSafe(|| split_off_front_matter(s, d)));
    match real {
        Err(_) => rep.fail("split-total", "panic", input, format!("split_off_front_matter panics on {:?} / {:?}", show(s.as_bytes()), d)),
        Ok(r) => {
            let want = match &r {
                None => "none".to_string(),
                Some((fm, rest)) => {
                    rep.nontrivial(&(d, s));
                    rep.count("k-split-some");
                    format!("some {} {}", hex(fm.as_bytes()), hex(rest.as_bytes()))
                }
            };
            bt.push(format!("fmsplit {} {}", hex(s.as_bytes()), hex(d.as_bytes())), move |resp, rep| {
                rep.k_evals += 1;
                if resp != want {
                    rep.disagree("split-model", input, format!("real={} model={}", want, resp));
                }
            });
        }
    }
}

/// The vocabulary of the Lean statements: the model's `lines` vs the oracle's `ref_lines`.
fn push_lines<'a>(bt: &mut Batch<'a>, s: &str) {
    let input = format!("lines {}", hex(s.as_bytes()));
    let ls = ref_lines(s);
    let v: Vec<&[u8]> = ls.iter().map(|l| &s.as_bytes()[l.start..l.content_end]).collect();
    let want = fmt_lines(&v);
    bt.push(format!("fmlines {}", hex(s.as_bytes())), move |resp, rep| {
        rep.k_evals += 1;
        if resp != want {
            rep.disagree("lines-model", input, format!("oracle lines = {} but model lines = {}", want, resp));
        }
    });
}

struct Parsed {
    fm: Option<String>,
    html: String,
    cm: String,
    xml: String,
}

fn render_all(doc: &str, o: &Opts) -> Result<Parsed, String> {
    let c = o.to_comrak();
    catch_unwind(AssertUnwindSafe(|| {
        let arena = Arena::new();
        let root = parse_document(&arena, doc, &c);
        let fm = root.children().find_map(|n| match &n.data.borrow().value {
            NodeValue::FrontMatter(s) => Some(s.clone()),
            _ => None,
        });
        let n_fm = root.descendants().filter(|n| matches!(n.data.borrow().value, NodeValue::FrontMatter(_))).count();
        let first_is_fm = root.first_child().map(|n| matches!(n.data.borrow().value, NodeValue::FrontMatter(_))).unwrap_or(false);
        assert!(n_fm == 0 || (n_fm == 1 && first_is_fm), "FrontMatter node not unique / not first");
        let (mut h, mut m, mut x) = (Vec::new(), Vec::new(), Vec::new());
        format_html(root, &c, &mut h).unwrap();
        format_commonmark(root, &c, &mut m).unwrap();
        format_xml(root, &c, &mut x).unwrap();
        Parsed { fm, html: String::from_utf8_lossy(&h).into_owned(), cm: String::from_utf8_lossy(&m).into_owned(), xml: String::from_utf8_lossy(&x).into_owned() }
    }))
    .map_err(|_| "PANIC in parse/format".to_string())
}

/// The real parser with the delimiter set: FrontMatter literal + tapped lines vs `parseDoc`.
fn push_doc<'a>(bt: &mut Batch<'a>, rep: &mut Report, d: &str, s: &str) {
    let input = format!("doc {} {}", hex(d.as_bytes()), hex(s.as_bytes()));
    let mut o = Opts::default();
    o.front_matter_delimiter = Some(d.to_string());
    let c = o.to_comrak();
    let fm = catch_unwind(AssertUnwindSafe(|| {
        let arena = Arena::new();
        let root = parse_document(&arena, s, &c);
        let r = root.first_child().and_then(|n| match &n.data.borrow().value {
            NodeValue::FrontMatter(s) => Some(s.clone()),
            _ => None,
        });
        r
    }));
    match (fm, real_tap(s, &o)) {
        (Ok(fm), Ok(t)) => {
            let want = format!("{} {}", match &fm { Some(f) => format!("some {}", hex(f.as_bytes())), None => "none".into() }, fmt_preludes(&t));
            if fm.is_some() {
                rep.count("k-doc-with-front-matter");
                if t.first().map(|l| l.line.starts_with(BOM.as_bytes())).unwrap_or(false) {
                    rep.count("k-doc-rest-starts-with-bom");
                }
            }
            bt.push(format!("fmdoc {} {}", hex(s.as_bytes()), hex(d.as_bytes())), move |resp, rep| {
                rep.k_evals += 1;
                if resp != want {
                    rep.disagree("parse-doc-model", input, format!("real (front matter, line:offset:line_number...) = {} but model = {}", want, resp));
                }
            });
        }
        // parser panics are C01's subject: counted, not reported here
        _ => rep.count("skipped-parser-panic"),
    }
}

// ------------------------------------------------------------------ the statement, read line by line

/// One line of a text: `start..content_end` is its content, `content_end..end` its terminator
/// (LF, CRLF or a lone CR; empty only for a last line that the end of the text ends).
#[derive(Debug, Clone, Copy, PartialEq, Eq)]
pub struct Line {
    pub start: usize,
    pub content_end: usize,
    pub end: usize,
}

impl Line {
    fn terminated(&self) -> bool {
        self.end > self.content_end
    }
    fn lone_cr(&self, s: &str) -> bool {
        &s[self.content_end..self.end] == "\r"
    }
}

/// The lines of a text, read byte by byte with one flag "the previous byte was a CR that ended a
/// line" (the shape of the C08 specification `splitLines`; deliberately not the shape of the code
/// under test, which searches for the next line-end byte and then measures the line ending).
pub fn ref_lines(s: &str) -> Vec<Line> {
    let mut out: Vec<Line> = vec![];
    let mut start = 0usize;
    let mut after_cr = false;
    for (i, b) in s.bytes().enumerate() {
        if b == b'\n' && after_cr {
            // the LF of a CRLF: it belongs to the terminator of the line the CR ended
            let last = out.last_mut().unwrap();
            last.end = i + 1;
            start = i + 1;
            after_cr = false;
        } else if b == b'\n' || b == b'\r' {
            out.push(Line { start, content_end: i, end: i + 1 });
            start = i + 1;
            after_cr = b == b'\r';
        } else {
            after_cr = false;
        }
    }
    if start < s.len() {
        out.push(Line { start, content_end: s.len(), end: s.len() });
    }
    out
}

pub struct RefSplit {
    pub fm_end: usize,
    pub body_lines: usize,
    /// lines of the front matter, the absorbed blank line included
    pub fm_lines: usize,
    pub close_at_eof: bool,
    /// some line of the front matter is ended by a CR that no LF follows
    pub lone_cr_line: bool,
    /// the last line of the front matter is
    pub ends_with_lone_cr: bool,
}

/// Front matter as the statement describes it: the first line is the delimiter alone, the block
/// runs to the next line that is the delimiter alone (lines end with LF, CRLF, CR or the end of
/// the text; an empty body is a body), plus one directly following blank line. Offsets are into
/// the BOM-stripped text.
pub fn ref_split(doc: &str, d: &str) -> Option<RefSplit> {
    let s = doc.strip_prefix(BOM).unwrap_or(doc);
    let ls = ref_lines(s);
    let content = |l: &Line| &s[l.start..l.content_end];
    if ls.len() < 2 || content(&ls[0]) != d {
        return None;
    }
    let k = (1..ls.len()).find(|&k| content(&ls[k]) == d)?;
    let mut last = k;
    if k + 1 < ls.len() && ls[k + 1].start == ls[k + 1].content_end {
        // a blank line (an empty line is in the list only if it has a terminator)
        last = k + 1;
    }
    Some(RefSplit {
        fm_end: ls[last].end,
        body_lines: k - 1,
        fm_lines: last + 1,
        close_at_eof: !ls[k].terminated(),
        lone_cr_line: ls[..=last].iter().any(|l| l.lone_cr(s)),
        ends_with_lone_cr: ls[last].lone_cr(s),
    })
}

// No syntactic class of documents is excepted any more: the recognition classes "empty-body",
// "body-line-starts-with-delimiter-and-closing-delimiter-at-eof" and
// "mixed-line-endings-later-crlf-delimiter" were repaired in /repo commit d92265f; front matter
// lines ended by a lone CR, which that commit made reachable, in ef24343 (line count) and 65297f7
// (CommonMark writer at the start of a line after a final CR). Every S failure has the sig "doc".

fn shift_sourcepos(html: &str, k: usize) -> String {
    let key = "data-sourcepos=\"";
    let mut out = String::with_capacity(html.len());
    let mut rest = html;
    while let Some(i) = rest.find(key) {
        out.push_str(&rest[..i + key.len()]);
        rest = &rest[i + key.len()..];
        let end = rest.find('"').unwrap_or(rest.len());
        let val = &rest[..end];
        // L:C-L:C
        let parts: Vec<&str> = val.split('-').collect();
        let sh = |p: &str| -> String {
            let mut it = p.splitn(2, ':');
            let l: usize = it.next().unwrap_or("0").parse().unwrap_or(0);
            format!("{}:{}", l + k, it.next().unwrap_or(""))
        };
        if parts.len() == 2 {
            out.push_str(&format!("{}-{}", sh(parts[0]), sh(parts[1])));
        } else {
            out.push_str(val);
        }
        rest = &rest[end..];
    }
    out.push_str(rest);
    out
}

fn doc_input(d: &str, o: &Opts, doc: &str) -> String {
    format!("fm {} {} {}", hex(d.as_bytes()), o.wire(), hex(doc.as_bytes()))
}

/// Does the clause `kind` (with class `sig`) still fail on `doc`?
fn still_fails(d: &str, o: &Opts, doc: &str, kind: &str, sig: &str) -> bool {
    let mut tmp = Report::new("C20");
    run_s_raw(&mut tmp, d, o, doc);
    tmp.s_fail.iter().any(|c| c.kind == kind && c.sig == sig)
}

/// Line-wise, then character-wise shrinking that preserves the failing clause and its class.
fn shrink(d: &str, o: &Opts, doc: &str, kind: &str, sig: &str) -> String {
    if doc.len() > 4000 {
        return doc.to_string();
    }
    let mut cur = doc.to_string();
    let mut budget = 1500usize;
    for by_line in [true, false] {
        loop {
            let parts: Vec<String> = if by_line { cur.split_inclusive('\n').map(|p| p.to_string()).collect() } else { cur.chars().map(|c| c.to_string()).collect() };
            let mut improved = false;
            for i in 0..parts.len() {
                if budget == 0 {
                    break;
                }
                budget -= 1;
                let cand: String = parts.iter().enumerate().filter(|(j, _)| *j != i).map(|(_, p)| p.as_str()).collect();
                if still_fails(d, o, &cand, kind, sig) {
                    cur = cand;
                    improved = true;
                    break;
                }
            }
            if !improved || budget == 0 {
                break;
            }
        }
    }
    cur
}

/// All oracle clauses on one document; failures are shrunk before they are recorded.
fn run_s(rep: &mut Report, d: &str, o0: &Opts, doc: &str) {
    let mut tmp = Report::new("C20");
    run_s_raw(&mut tmp, d, o0, doc);
    rep.s_evals += tmp.s_evals;
    for (k, v) in tmp.dist.iter() {
        rep.add(k, *v);
    }
    let mut done: Vec<(String, String)> = vec![];
    for c in tmp.s_fail.iter() {
        if done.iter().any(|(k, s)| *k == c.kind && *s == c.sig) {
            continue;
        }
        done.push((c.kind.clone(), c.sig.clone()));
        let small = shrink(d, o0, doc, &c.kind, &c.sig);
        let mut t2 = Report::new("C20");
        run_s_raw(&mut t2, d, o0, &small);
        match t2.s_fail.iter().find(|x| x.kind == c.kind && x.sig == c.sig) {
            Some(x) => rep.fail(&x.kind, &x.sig, x.input.clone(), x.detail.clone()),
            None => rep.fail(&c.kind, &c.sig, c.input.clone(), c.detail.clone()),
        }
    }
}

fn run_s_raw(rep: &mut Report, d: &str, o0: &Opts, doc: &str) {
    let mut o = o0.clone();
    o.front_matter_delimiter = Some(d.to_string());
    o.set("sourcepos", false);
    // experimental_minimize_commonmark re-parses the CommonMark it has just produced with the same
    // options; that text can be genuine front matter (trailing blanks and CRs are normalised away)
    // although the source was not. That is a property of the experimental minimiser (C07/C17), not
    // of how the source is read, so it is kept out of this comparison.
    o.set("experimental_minimize_commonmark", false);
    let mut off = o.clone();
    off.front_matter_delimiter = None;
    let input = doc_input(d, &o, doc);
    let ctx = format!("d = {:?} doc = {:?} opts [{}]", d, show(doc.as_bytes()), o.describe());
    let on = match render_all(doc, &o) {
        Ok(p) => p,
        Err(_) => {
            rep.count("skipped-parser-panic");
            return;
        }
    };
    let stripped = doc.strip_prefix(BOM).unwrap_or(doc);
    let rs = ref_split(doc, d);
    // 1. recognised exactly when the statement says so, not at all otherwise
    rep.s_evals += 1;
    let want_fm = rs.as_ref().map(|r| &stripped[..r.fm_end]);
    if let Some(r) = &rs {
        if r.body_lines == 0 {
            rep.count("s-ref-empty-body");
        }
        if r.close_at_eof {
            rep.count("s-ref-closing-delimiter-at-eof");
        }
        if r.lone_cr_line {
            rep.count("s-ref-front-matter-line-ended-by-lone-cr");
        }
        if r.ends_with_lone_cr {
            rep.count("s-ref-front-matter-ends-with-lone-cr");
        }
        if r.fm_lines == r.body_lines + 3 {
            rep.count("s-ref-blank-line-absorbed");
        }
    }
    match (&want_fm, &on.fm) {
        (Some(_), Some(_)) => rep.count("s-front-matter-recognised"),
        (None, None) => rep.count("s-resembles-only"),
        _ => {}
    }
    if want_fm != on.fm.as_deref() {
        rep.fail(
            "recognised-exactly",
            "doc",
            input.clone(),
            format!("{}: the leading block enclosed by the delimiter is {:?} but the parser took {:?}", ctx, want_fm.map(|f| show(f.as_bytes())), on.fm.as_ref().map(|f| show(f.as_bytes()))),
        );
    }
    match &on.fm {
        Some(fm) => {
            // 2. verbatim at the top of CommonMark, and the rest as on its own
            let rest = match stripped.strip_prefix(fm.as_str()) {
                Some(r) => r,
                None => {
                    rep.s_evals += 1;
                    rep.fail("front-matter-is-a-prefix", "doc", input, format!("{}: literal {:?} is not a prefix of the text", ctx, show(fm.as_bytes())));
                    return;
                }
            };
            rep.s_evals += 1;
            if !on.cm.starts_with(fm.as_str()) {
                rep.fail("cm-verbatim", "doc", input.clone(), format!("{}: CommonMark output {:?} does not start with the front matter", ctx, show(on.cm.as_bytes())));
            }
            // the experimental minimiser post-processes the whole CommonMark text: only the verbatim clause
            // is claimed with it on (the comparison with the rest alone is not, see above)
            if o0.get("experimental_minimize_commonmark") {
                let mut om = o.clone();
                om.set("experimental_minimize_commonmark", true);
                if let Ok(pm) = render_all(doc, &om) {
                    rep.s_evals += 1;
                    rep.count("s-minimized-verbatim-clause");
                    if !pm.cm.starts_with(fm.as_str()) {
                        rep.fail("cm-verbatim", "minimized", input.clone(), format!("{} + experimental_minimize_commonmark: CommonMark output {:?} does not start with the front matter", ctx, show(pm.cm.as_bytes())));
                    }
                }
            }
            // a BOM is a byte-order mark only at the very start of a text: a rest that starts with
            // U+FEFF is ordinary text inside the document and has no stand-alone counterpart
            if rest.starts_with(BOM) {
                rep.count("s-rest-starts-with-bom-skipped");
                return;
            }
            let alone = match render_all(rest, &off) {
                Ok(p) => p,
                Err(_) => {
                    rep.count("skipped-parser-panic");
                    return;
                }
            };
            rep.s_evals += 3;
            // the CommonMark writer may separate the verbatim block from the next block by a blank
            // line of its own (it does after a CRLF-terminated block): blank lines between blocks
            // carry no meaning, so the rest is compared modulo leading newlines
            let cm_tail = on.cm.strip_prefix(fm.as_str()).unwrap_or("");
            if cm_tail.trim_start_matches('\n') != alone.cm.trim_start_matches('\n') {
                rep.fail("cm-rest-same", "doc", input.clone(), format!("{}: {}", ctx, diff_window(on.cm.as_bytes(), format!("{}{}", fm, alone.cm).as_bytes())));
            }
            if cm_tail != alone.cm {
                rep.count("s-cm-extra-blank-line-after-front-matter");
            }
            if on.html != alone.html {
                rep.fail("html-absent-rest-same", "doc", input.clone(), format!("{}: {}", ctx, diff_window(on.html.as_bytes(), alone.html.as_bytes())));
            }
            let x_on: String = on.xml.lines().filter(|l| l.trim() != "<frontmatter xml:space=\"preserve\"></frontmatter>" && !l.trim().starts_with("<frontmatter")).map(|l| format!("{}\n", l)).collect();
            // a document with no other child is written `<document ... />` on its own
            let x_alone = if rest.is_empty() || !alone.xml.contains("</document>") {
                alone.xml.replace(" />\n", ">\n</document>\n")
            } else {
                alone.xml.clone()
            };
            if x_on != x_alone {
                rep.fail("xml-rest-same", "doc", input.clone(), format!("{}: {}", ctx, diff_window(x_on.as_bytes(), x_alone.as_bytes())));
            }
            // source lines shifted by the line count of the front matter (lines as everywhere else:
            // ended by LF, CRLF or CR; before /repo commit ef24343 the code added the number of LF bytes)
            let k = ref_lines(fm).len();
            if k != fm.bytes().filter(|b| *b == b'\n').count() && !rest.is_empty() {
                rep.count("s-front-matter-line-count-differs-from-lf-count");
            }
            let (mut o_sp, mut off_sp) = (o.clone(), off.clone());
            o_sp.set("sourcepos", true);
            off_sp.set("sourcepos", true);
            if let (Ok(a), Ok(b)) = (render_all(doc, &o_sp), render_all(rest, &off_sp)) {
                rep.s_evals += 1;
                let shifted = shift_sourcepos(&b.html, k);
                if a.html != shifted {
                    rep.fail("html-sourcepos-shifted", "doc", input.clone(), format!("{}: {}", ctx, diff_window(a.html.as_bytes(), shifted.as_bytes())));
                }
            }
        }
        None => {
            // 3. ordinary Markdown: exactly as with the option off
            match render_all(doc, &off) {
                Ok(p) => {
                    rep.s_evals += 1;
                    if p.html != on.html || p.cm != on.cm || p.xml != on.xml {
                        rep.fail("unrecognised-is-ordinary-markdown", "doc", input, format!("{}: output differs from the option being off", ctx));
                    }
                }
                Err(_) => rep.count("skipped-parser-panic"),
            }
        }
    }
}

// ------------------------------------------------------------------ generators

const DELIMS: &[&str] = &["---", "+++", "%%", "-", "ab", "\u{04fc}", ";;;", "!@#", "a-a", "--", "***", "$", "...", "--- ", "---\t", " ---", "- -"];

fn gen_fm_doc(r: &mut Rng, corpus: &Corpus) -> (String, String) {
    let d = r.ps(DELIMS).to_string();
    let style = r.below(10); // 0-4 LF, 5-7 CRLF, 8 mixed, 9 CR
    let eol = |r: &mut Rng| -> &'static str {
        match style {
            0..=4 => "\n",
            5..=7 => "\r\n",
            8 => r.ps(&["\n", "\r\n"]),
            _ => "\r",
        }
    };
    let mut s = String::new();
    if r.chance(1, 10) {
        s.push_str(BOM);
        // two files that each carry a mark, concatenated: the second mark is content of line 1
        if r.chance(1, 4) {
            s.push_str(BOM);
        }
    }
    match r.below(14) {
        0 => s.push_str(r.ps(&["\n", " ", "x", "\t", "x\n"])), // not at the very start
        _ => {}
    }
    s.push_str(&d);
    if r.chance(1, 14) {
        s.push_str(r.ps(&[" ", "x", "\t", &d])); // opening delimiter not alone
    }
    s.push_str(eol(r));
    let n = if r.chance(1, 12) { 0 } else { r.range(1, 4) };
    for _ in 0..n {
        let l = match r.below(16) {
            0 => format!("{}x", d),
            1 => format!(" {}", d),
            2 => format!("{} ", d),
            3 => format!("x{}", d),
            4 => String::new(),
            5 => " ".into(),
            6 => "# h".into(),
            7 => "- item".into(),
            8 => "[a]: /u".into(),
            9 => "```".into(),
            10 => "<div>".into(),
            11 => "é: ü".into(),
            12 => format!("{}{}", d, d),
            _ => r.ps(&["a: b", "title: \"q\"", "tags: [x, y]", "k: |", "  v", "nul: a\u{0}b", "\u{0}", "path: C:\\temp\\new", "re: \\d+\\.\\d+ \\* \\_x\\_", "e: &amp; &#35; *not* _md_ `c` <b>", "u: http://a.b/c?d=e www.x.y a@b.c", "esc: \\[x\\] \\# \\> \\- \\!"]).to_string(),
        };
        s.push_str(&l);
        s.push_str(eol(r));
    }
    match r.below(14) {
        0 => return (d, s), // unterminated
        1 => {
            s.push_str(&format!("{}{}", d, r.ps(&[" ", "x", "\t"])));
        }
        2 => {
            s.push_str(&format!(" {}", d));
        }
        _ => s.push_str(&d),
    }
    if r.chance(1, 6) {
        return (d, s); // closing delimiter at the end of the input
    }
    s.push_str(eol(r));
    if r.chance(1, 3) {
        s.push_str(eol(r));
    }
    if r.chance(1, 30) {
        s.push_str(BOM);
    }
    match r.below(8) {
        0 => {}
        1 => s.push_str(r.ps(&["text", "    indented code\n\ntext\n", "\tcode\n", "  - item\n", "   three spaces\n", " \nx\n"])),
        2 => s.push_str(&format!("b{}{}{}c{}", eol(r), d, r.ps(&["\r\n", "\n"]), eol(r))), // a later delimiter line
        3 => s.push_str(&format!("{}\nb\n{}\n", d, d)),
        _ => {
            let (doc, _) = mixed_doc(r, corpus);
            let doc = match style {
                5..=7 => doc.replace('\n', "\r\n"),
                _ => doc,
            };
            s.push_str(&doc);
        }
    }
    (d, s)
}

fn enumerate(syms: &[&str], maxlen: usize, mut f: impl FnMut(&str)) -> u64 {
    let mut total = 1;
    f("");
    let mut cur: Vec<String> = vec![String::new()];
    for len in 1..=maxlen {
        let mut next = Vec::new();
        for s in &cur {
            for sym in syms {
                let mut t = s.clone();
                t.push_str(sym);
                f(&t);
                total += 1;
                if len < maxlen {
                    next.push(t);
                }
            }
        }
        cur = next;
    }
    total
}

pub fn run(cfg: &Cfg, rep: &mut Report) {
    let m = Model::from_env();
    let mut rng = Rng::new(cfg.seed ^ 0xC20);
    let corpus = Corpus::load();
    rep.rule = "K: split_off_front_matter (hook) vs the Lean model on every string of <= N symbols over {delimiter bytes, other, LF, CR, BOM} for the delimiters \"-\", \"ab\", \"---\" (exhaustive), and on generated front-matter-like documents (17 delimiters, four of them with a blank at an end or inside; LF/CRLF/mixed/CR endings; body lines containing/starting with the delimiter; mutations: not at start, opening/closing not alone, unterminated, EOF close, later delimiter lines, BOM) plus byte deletions; the parser's FrontMatter literal and tapped process_line calls vs the model's parseDoc; the model's lines vs the oracle's ref_lines. S: the same generated documents x random option vectors through parse/format_commonmark/format_html/format_xml against the line-based reading of the statement. distinct_nontrivial counts distinct (delimiter, text) pairs on which the real splitter returns Some.".into();

    // 1. K exhaustive
    let t = cfg.tier_thorough;
    let plans: [(&str, &[&str], usize); 3] = [
        ("-", &["-", "x", "\n", "\r", BOM], if t { 9 } else { 8 }),
        ("ab", &["a", "b", "x", "\n", "\r", BOM], if t { 8 } else { 6 }),
        ("---", &["---", "-", "x", "\n", "\r", BOM], if t { 8 } else { 6 }),
    ];
    for (d, syms, maxlen) in plans {
        let mut bt = Batch::new();
        let mut pending: Vec<String> = vec![];
        let total = enumerate(syms, maxlen, |s| pending.push(s.to_string()));
        for chunk in pending.chunks(40_000) {
            for s in chunk {
                push_split(&mut bt, rep, d, s);
            }
            let b = std::mem::replace(&mut bt, Batch::new());
            b.run(&m, rep);
        }
        rep.add(&format!("k-exhaustive-delimiter-{:?}", d), total);
        rep.exhaustive_what.push(format!("delimiter {:?}: all {} strings of <= {} symbols over {:?}", d, total, maxlen, syms.iter().map(|x| show(x.as_bytes())).collect::<Vec<_>>()));
        // the parser as a whole on the shorter ones
        let mut bt = Batch::new();
        let mut n_doc = 0;
        for s in pending.iter().filter(|s| s.chars().count() <= maxlen - 2) {
            push_doc(&mut bt, rep, d, s);
            push_lines(&mut bt, s);
            n_doc += 1;
            if bt.len() > 20_000 {
                let b = std::mem::replace(&mut bt, Batch::new());
                b.run(&m, rep);
            }
        }
        bt.run(&m, rep);
        rep.add("k-exhaustive-parse-doc", n_doc);
    }
    rep.exhaustive = true;

    // 2. K random + S on the same documents
    let n = if cfg.tier_thorough { 200_000 } else if cfg.full { 40_000 } else { 10_000 };
    let mut bt = Batch::new();
    for i in 0..n {
        let (d, doc) = gen_fm_doc(&mut rng, &corpus);
        if i < 4 {
            rep.sample(format!("d={:?} doc={:?}", d, show(doc.as_bytes())));
        }
        push_split(&mut bt, rep, &d, &doc);
        push_doc(&mut bt, rep, &d, &doc);
        push_lines(&mut bt, &doc);
        // a deletion somewhere
        if doc.len() > 1 {
            let chars: Vec<char> = doc.chars().collect();
            let k = rng.below(chars.len());
            let mutated: String = chars.iter().enumerate().filter(|(j, _)| *j != k).map(|(_, c)| *c).collect();
            push_split(&mut bt, rep, &d, &mutated);
        }
        // unrelated delimiter / plain documents
        if i % 8 == 0 {
            let (plain, _) = mixed_doc(&mut rng, &corpus);
            push_split(&mut bt, rep, "---", &plain);
            push_doc(&mut bt, rep, "---", &plain);
        }
        let mut o = Opts::random(&mut rng);
        if rng.chance(1, 2) {
            o.width = 0;
        }
        rep.count(&format!("s-delimiter-{}", d));
        run_s(rep, &d, &o, &doc);
        if bt.len() > 20_000 {
            let b = std::mem::replace(&mut bt, Batch::new());
            b.run(&m, rep);
        }
    }
    bt.run(&m, rep);
    // front matter far larger than the document after it: nothing of it may count for the rest (the
    // reference-expansion budget is max(size, 100000): a rest whose expansions cross 100000 bytes)
    for (fm_bytes, url_len, uses) in [(150_000usize, 1000usize, 150usize), (400_000, 2000, 120), (90_000, 500, 260), (150_000, 1000, 95)] {
        let mut doc = String::from("---\n");
        while doc.len() < fm_bytes {
            doc.push_str("key: some value that takes up room in the front matter\n");
        }
        doc.push_str("---\n");
        doc.push_str(&format!("[r]: /{}\n\n", "u".repeat(url_len)));
        for i in 0..uses {
            doc.push_str(if i % 20 == 19 { "[r]\n" } else { "[r] " });
        }
        doc.push('\n');
        rep.count("s-large-front-matter-reference-budget");
        run_s(rep, "---", &Opts::default(), &doc);
    }
    // S on generic documents with the common delimiter (grammar_doc emits "---" blocks)
    let n = if cfg.tier_thorough { 60_000 } else if cfg.full { 15_000 } else { 3_000 };
    for _ in 0..n {
        let (doc, name) = mixed_doc(&mut rng, &corpus);
        let o = Opts::random(&mut rng);
        rep.count(&format!("s-doc-{}", name));
        run_s(rep, "---", &o, &doc);
    }
}

pub fn replay(kind: &str, input: &str) -> Result<Option<String>, String> {
    let toks: Vec<&str> = input.split(' ').collect();
    let mut rep = Report::new("C20");
    let utf8 = |h: &str| -> Result<String, String> { String::from_utf8(unhex(h).ok_or("bad hex")?).map_err(|_| "not utf-8".to_string()) };
    match toks.first().copied() {
        Some("split") if toks.len() == 3 => {
            let m = Model::from_env();
            let mut bt = Batch::new();
            push_split(&mut bt, &mut rep, &utf8(toks[1])?, &utf8(toks[2])?);
            bt.run(&m, &mut rep);
        }
        Some("lines") if toks.len() == 2 => {
            let m = Model::from_env();
            let mut bt = Batch::new();
            push_lines(&mut bt, &utf8(toks[1])?);
            bt.run(&m, &mut rep);
        }
        Some("doc") if toks.len() == 3 => {
            let m = Model::from_env();
            let mut bt = Batch::new();
            push_doc(&mut bt, &mut rep, &utf8(toks[1])?, &utf8(toks[2])?);
            bt.run(&m, &mut rep);
        }
        Some("fm") if toks.len() == 10 => {
            let o = Opts::from_wire(&toks[2..9]).ok_or("bad opts")?;
            run_s_raw(&mut rep, &utf8(toks[1])?, &o, &utf8(toks[9])?);
        }
        _ => return Err("bad replay input".into()),
    }
    for c in rep.s_fail.iter().chain(rep.k_disagree.iter()) {
        if kind.is_empty() || c.kind == kind {
            return Ok(Some(format!("{} [{}]: {}", c.kind, c.sig, c.detail)));
        }
    }
    Ok(None)
}
