//! Hex wire format, JSON writing, small helpers.
use std::fmt::Write as _;

pub fn hex(b: &[u8]) -> String {
    if b.is_empty() {
        return "-".to_string();
    }
    let mut s = String::with_capacity(b.len() * 2);
    for x in b {
        let _ = write!(s, "{:02x}", x);
    }
    s
}

pub fn unhex(s: &str) -> Option<Vec<u8>> {
    if s == "-" {
        return Some(vec![]);
    }
    let b = s.as_bytes();
    if b.len() % 2 != 0 {
        return None;
    }
    let v = |c: u8| -> Option<u8> {
        match c {
            b'0'..=b'9' => Some(c - b'0'),
            b'a'..=b'f' => Some(c - b'a' + 10),
            b'A'..=b'F' => Some(c - b'A' + 10),
            _ => None,
        }
    };
    let mut out = Vec::with_capacity(b.len() / 2);
    for p in b.chunks(2) {
        out.push(v(p[0])? << 4 | v(p[1])?);
    }
    Some(out)
}

pub fn jstr(s: &str) -> String {
    let mut o = String::with_capacity(s.len() + 2);
    o.push('"');
    for c in s.chars() {
        match c {
            '"' => o.push_str("\\\""),
            '\\' => o.push_str("\\\\"),
            '\n' => o.push_str("\\n"),
            '\r' => o.push_str("\\r"),
            '\t' => o.push_str("\\t"),
            c if (c as u32) < 0x20 => {
                let _ = write!(o, "\\u{:04x}", c as u32);
            }
            c => o.push(c),
        }
    }
    o.push('"');
    o
}

/// Printable rendition of bytes for evidence samples (lossy, escaped).
pub fn show(b: &[u8]) -> String {
    let lim: usize = std::env::var("CVH_SHOW").ok().and_then(|v| v.parse().ok()).unwrap_or(200);
    let mut s = String::new();
    for &x in b.iter().take(lim) {
        match x {
            b'\\' => s.push_str("\\\\"),
            0x20..=0x7e => s.push(x as char),
            b'\n' => s.push_str("\\n"),
            b'\r' => s.push_str("\\r"),
            b'\t' => s.push_str("\\t"),
            _ => {
                let _ = write!(s, "\\x{:02x}", x);
            }
        }
    }
    if b.len() > lim {
        s.push_str("...");
    }
    s
}

/// Minimal JSON object builder.
#[derive(Default)]
pub struct Obj(Vec<(String, String)>);
impl Obj {
    pub fn new() -> Obj {
        Obj(vec![])
    }
    pub fn raw(mut self, k: &str, v: String) -> Obj {
        self.0.push((k.to_string(), v));
        self
    }
    pub fn s(self, k: &str, v: &str) -> Obj {
        let j = jstr(v);
        self.raw(k, j)
    }
    pub fn n(self, k: &str, v: u64) -> Obj {
        self.raw(k, v.to_string())
    }
    pub fn b(self, k: &str, v: bool) -> Obj {
        self.raw(k, v.to_string())
    }
    pub fn arr(self, k: &str, v: &[String]) -> Obj {
        self.raw(k, format!("[{}]", v.join(",")))
    }
    pub fn strs(self, k: &str, v: &[String]) -> Obj {
        let js: Vec<String> = v.iter().map(|x| jstr(x)).collect();
        self.arr(k, &js)
    }
    pub fn build(&self) -> String {
        let parts: Vec<String> = self.0.iter().map(|(k, v)| format!("{}:{}", jstr(k), v)).collect();
        format!("{{{}}}", parts.join(","))
    }
}

/// Describes the first difference between two byte strings with some context.
pub fn diff_window(real: &[u8], model: &[u8]) -> String {
    let mut i = 0;
    while i < real.len() && i < model.len() && real[i] == model[i] {
        i += 1;
    }
    let lo = i.saturating_sub(70);
    format!(
        "first difference at byte {} (real len {}, model len {}); context {:?}; real continues {:?}; model continues {:?}",
        i,
        real.len(),
        model.len(),
        show(&real[lo..i]),
        show(&real[i..(i + 90).min(real.len())]),
        show(&model[i..(i + 90).min(model.len())])
    )
}

/// Root of the comrak checkout under test: /repo, or $VERIF_REPO when a check is pointed at a
/// scratch worktree (used only for seeded-change experiments; registered commands never set it).
pub fn repo_root() -> String {
    std::env::var("VERIF_REPO").unwrap_or_else(|_| "/repo".to_string())
}
