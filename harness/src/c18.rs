//! C18: the sourcepos option only adds attributes.
use crate::gen::Corpus;
use crate::htmlk::{gen_case, push_html_k, strip_attr, Src};
use crate::model::{Batch, Model};
use crate::opts::Opts;
use crate::report::Report;
use crate::rng::Rng;
use crate::util::{diff_window};
use crate::Cfg;
use comrak::{format_commonmark, format_xml};

fn render_other(src: &Src, o: &Opts) -> Result<(Vec<u8>, Vec<u8>, String), String> {
    let c = o.to_comrak();
    src.with_root(o, |root| {
        let mut x = Vec::new();
        format_xml(root, &c, &mut x).unwrap();
        let mut m = Vec::new();
        format_commonmark(root, &c, &mut m).unwrap();
        // tree without positions is compared by its kind/payload wire with sourcepos zeroed
        (x, m, crate::ser::ser_tree(root))
    })
}

pub fn push_case<'a>(bt: &mut Batch<'a>, rep: &mut Report, o: Opts, src: Src, name: &'static str) {
    let on = o.clone().with("sourcepos", true);
    let off = o.clone().with("sourcepos", false);
    let input = src.input(&off);
    let r_on = push_html_k(bt, rep, &on, &src, name);
    let r_off = push_html_k(bt, rep, &off, &src, name);
    if let (Some(a), Some(b)) = (r_on, r_off) {
        rep.s_evals += 1;
        let (sa, sb) = (strip_attr(&a.html, "data-sourcepos"), strip_attr(&b.html, "data-sourcepos"));
        if sa != sb {
            rep.fail("html-sourcepos-only-adds", "html", input.clone(), diff_window(&sa, &sb));
        }
        if a.html.windows(16).any(|w| w == b" data-sourcepos=") {
            rep.count("html-has-sourcepos-attr");
        }
        rep.s_evals += 1;
        if a.tree_wire != b.tree_wire {
            rep.fail("parse-ignores-sourcepos", "ast", input.clone(), "the parsed tree differs with render.sourcepos on/off".into());
        }
    }
    match (render_other(&src, &on), render_other(&src, &off)) {
        (Ok((xa, ma, _)), Ok((xb, mb, _))) => {
            rep.s_evals += 2;
            let (sa, sb) = (strip_attr(&xa, "sourcepos"), strip_attr(&xb, "sourcepos"));
            if sa != sb {
                rep.fail("xml-sourcepos-only-adds", "xml", input.clone(), diff_window(&sa, &sb));
            }
            if ma != mb {
                rep.fail("commonmark-ignores-sourcepos", "cm", input.clone(), diff_window(&ma, &mb));
            }
        }
        (Err(_), _) | (_, Err(_)) => {
            // totality is C01's subject (e.g. experimental_minimize_commonmark re-parses its own output and can
            // hit the listed Spx::consume assertion): counted, not judged here
            rep.count("skipped-panic");
        }
    }
}

pub fn run(cfg: &Cfg, rep: &mut Report) {
    let m = Model::from_env();
    let mut rng = Rng::new(cfg.seed ^ 0xC18);
    let corpus = Corpus::load();
    rep.rule = "documents (grammar/palette/bytes/corpus) and direct trees x random option vectors, each rendered with sourcepos on and off by HTML, XML and CommonMark formatters; distinct_nontrivial counts distinct (node-kind sequence, option bits) classes with more than the Document node".into();
    let n = if cfg.tier_thorough { 100_000 } else if cfg.full { 30_000 } else { 12_000 };
    let mut done = 0;
    while done < n {
        let mut bt = Batch::new();
        for _ in 0..2000.min(n - done) {
            let (src, name) = gen_case(&mut rng, &corpus);
            let o = Opts::random(&mut rng);
            if done < 3 {
                rep.sample(format!("{} opts [{}]", src.show(), o.describe()));
            }
            push_case(&mut bt, rep, o, src, name);
            done += 1;
        }
        bt.run(&m, rep);
    }
}

pub fn replay(kind: &str, input: &str) -> Result<Option<String>, String> {
    let (o, src) = Src::parse_input(input).ok_or("bad replay input")?;
    let m = Model::from_env();
    let mut rep = Report::new("C18");
    let mut bt = Batch::new();
    push_case(&mut bt, &mut rep, o, src, "replay");
    bt.run(&m, &mut rep);
    for c in rep.s_fail.iter().chain(rep.k_disagree.iter()) {
        if kind.is_empty() || c.kind == kind {
            return Ok(Some(format!("{}: {}", c.kind, c.detail)));
        }
    }
    Ok(None)
}
