//! C12: source positions point at the text they claim.
//! S (always at full volume): the Lean oracle `sliceFail` per node kind (driver `spcheck12`) on the
//! real tree. K: the content map of leaf blocks through hooks.
use crate::report::Report;
use crate::spk::{self, Which};
use crate::Cfg;

pub fn run(cfg: &Cfg, rep: &mut Report) {
    spk::run(Which::C12, cfg, rep);
}

pub fn replay(kind: &str, input: &str) -> Result<Option<String>, String> {
    spk::replay(Which::C12, kind, input)
}
