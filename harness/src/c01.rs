//! C01: total on every input.
//! S (always full volume): isolated worker processes with a wall-clock watchdog run the four entry
//! points (parse, HTML, CommonMark, XML) on hostile inputs under random option vectors; the oracle is
//! "the worker answers: no panic, no abort, no stack overflow, no hang, output valid UTF-8". The runner
//! executes this module twice: release build and dev build (debug assertions + overflow checks).
//! K: each modelled mechanism (hooks) against its Lean model, model `none` <-> real panic.
use crate::gen::{bytes_doc, grammar_doc, palette_doc, Corpus};
use crate::model::{Batch, Model};
use crate::opts::Opts;
use crate::report::Report;
use crate::rng::Rng;
use crate::util::{hex, show, unhex};
use crate::worker::{default_workers, expand_spec, run_cases, spec_of, Outcome};
use crate::Cfg;
use comrak::{format_commonmark, format_html, format_xml, parse_document, Arena};
use std::panic::{catch_unwind, AssertUnwindSafe};
use std::time::Duration;

pub const PROFILE: &str = if cfg!(debug_assertions) { "dev" } else { "release" };

// ------------------------------------------------------------------ worker side

fn stage(s: &str) {
    use std::io::Write;
    let _ = std::io::stderr().write_all(s.as_bytes());
}

/// One case inside a worker: `doc <opts wire (7 tokens)> <docspec>`.
/// Answer: `ok nodes=.. html=.. cm=.. xml=..` or `fail <entry>|<clause>|<hex detail>;...`.
pub fn worker_case(line: &str) -> String {
    let toks: Vec<&str> = line.split(' ').collect();
    if toks.len() < 9 || toks[0] != "doc" {
        return "bad-case".into();
    }
    if let Some(k) = toks.get(9).and_then(|t| t.strip_prefix("stack=")).and_then(|k| k.parse::<usize>().ok()) {
        // the same case on a thread with a small stack; an overflow kills the worker process (seen by the parent)
        let inner = toks[..9].join(" ");
        return std::thread::Builder::new()
            .stack_size(k << 10)
            .spawn(move || worker_case(&inner))
            .map(|h| h.join().unwrap_or_else(|_| "fail parse|panic|".into()))
            .unwrap_or_else(|_| "bad-case".into());
    }
    let o = match Opts::from_wire(&toks[1..8]) {
        Some(o) => o,
        None => return "bad-opts".into(),
    };
    let md = match expand_spec(toks[8]).and_then(|b| String::from_utf8(b).ok()) {
        Some(s) => s,
        None => return "bad-doc".into(),
    };
    let c = o.to_comrak();
    let mut fails: Vec<String> = vec![];
    let arena = Arena::new();
    stage("@parse\n");
    let root = match catch_unwind(AssertUnwindSafe(|| parse_document(&arena, &md, &c))) {
        Ok(r) => r,
        Err(_) => {
            return format!("fail parse|panic|{}", hex(crate::worker::take_panic().as_bytes()));
        }
    };
    let mut nodes = 0usize;
    if md.len() < 4096 {
        nodes = root.descendants().count();
    }
    let mut lens = [0usize; 3];
    type F = for<'a> fn(&'a comrak::nodes::AstNode<'a>, &comrak::Options, &mut dyn std::io::Write) -> std::io::Result<()>;
    let entries: [(&str, F); 3] = [("html", format_html), ("commonmark", format_commonmark), ("xml", format_xml)];
    for (i, (name, f)) in entries.iter().enumerate() {
        stage(&format!("@{}\n", name));
        let r = catch_unwind(AssertUnwindSafe(|| {
            let mut out = Vec::new();
            let r = f(root, &c, &mut out);
            (out, r.is_ok())
        }));
        match r {
            Err(_) => fails.push(format!("{}|panic|{}", name, hex(crate::worker::take_panic().as_bytes()))),
            Ok((out, ok)) => {
                lens[i] = out.len();
                if !ok {
                    fails.push(format!("{}|io-error|-", name));
                }
                if let Err(e) = std::str::from_utf8(&out) {
                    let at = e.valid_up_to();
                    let lo = at.saturating_sub(12);
                    fails.push(format!("{}|not-utf8|{}", name, hex(format!("invalid at byte {}: ..{}", at, show(&out[lo..(at + 8).min(out.len())])).as_bytes())));
                }
            }
        }
    }
    // the one-call entry points are compositions of the above; run them on small documents
    if md.len() < 2048 && fails.is_empty() {
        stage("@markdown_to\n");
        let r = catch_unwind(AssertUnwindSafe(|| {
            let a = comrak::markdown_to_html(&md, &c);
            let b = comrak::markdown_to_commonmark(&md, &c);
            let x = comrak::markdown_to_commonmark_xml(&md, &c);
            (a.len(), b.len(), x.len())
        }));
        match r {
            Err(_) => fails.push(format!("markdown_to|panic|{}", hex(crate::worker::take_panic().as_bytes()))),
            Ok((a, b, x)) => {
                if (a, b, x) != (lens[0], lens[1], lens[2]) {
                    // lengths are compared only as a sanity check of the harness itself
                    fails.push("markdown_to|differs-from-composition|-".to_string());
                }
            }
        }
    }
    stage("@done\n");
    if fails.is_empty() {
        format!("ok nodes={} html={} cm={} xml={}", nodes, lens[0], lens[1], lens[2])
    } else {
        format!("fail {}", fails.join(";"))
    }
}

// ------------------------------------------------------------------ input classes (signatures)

/// Longest run-ish measure of nesting markers on one line: number of bytes of the line that are
/// container or delimiter openers. A crude but purely syntactic bound on the depth of the tree a
/// single line can open.
fn marker_depth(doc: &[u8]) -> usize {
    let mut best = 0;
    for l in doc.split(|b| *b == b'\n' || *b == b'\r') {
        let n = l.iter().filter(|b| matches!(**b, b'>' | b'*' | b'_' | b'[' | b'~' | b'^' | b'=' | b'|' | b'-' | b'+')).count();
        best = best.max(n);
    }
    best
}

fn email_count(doc: &[u8]) -> usize {
    doc.windows(3).filter(|w| w[1] == b'@' && w[0].is_ascii_alphanumeric() && w[2].is_ascii_alphanumeric()).count()
}

fn has_email_like(doc: &[u8]) -> bool {
    doc.windows(3).any(|w| w[1] == b'@' && w[0].is_ascii_alphanumeric() && w[2].is_ascii_alphanumeric())
}

/// A `[^label]` on one line whose label holds an `x@y` and a construct whose text differs in byte length
/// from its source spelling (backslash escape, entity, or - with `smart` - quotes / dashes).
/// This is the shape of an unresolved footnote reference that is turned back into one Text node.
fn fnref_label_with_email_and_nonverbatim(doc: &[u8], smart: bool) -> bool {
    let mut i = 0;
    while i + 1 < doc.len() {
        if doc[i] == b'[' && doc[i + 1] == b'^' {
            let mut j = i + 2;
            let (mut at, mut nonverb) = (false, false);
            while j < doc.len() && doc[j] != b'\n' && doc[j] != b'\r' && j - i < 1100 {
                match doc[j] {
                    b'\\' => {
                        nonverb = true;
                        j += 1;
                    }
                    b'&' => nonverb = true,
                    b'"' | b'\'' | b'-' | b'.' if smart => nonverb = true,
                    b'@' => at = true,
                    b']' => break,
                    _ => {}
                }
                j += 1;
            }
            if j < doc.len() && doc[j] == b']' && at && nonverb {
                return true;
            }
        }
        i += 1;
    }
    false
}

/// Ordered-list markers (`<digits>.` or `<digits>)` after optional container markers at a line start), in document order.
fn ol_markers(doc: &[u8]) -> Vec<u64> {
    // any `<digits>.` / `<digits>)` token that starts a line or follows a blank or a container marker
    // (`>`, bullet, `:` of a footnote definition) and is followed by a blank or the end of the line
    let mut v = vec![];
    for l in doc.split(|b| *b == b'\n' || *b == b'\r') {
        let mut i = 0;
        while i < l.len() {
            let at_start = i == 0 || matches!(l[i - 1], b' ' | b'\t' | b'>' | b'-' | b'+' | b'*' | b':' | b']');
            if at_start && l[i].is_ascii_digit() {
                let st = i;
                while i < l.len() && l[i].is_ascii_digit() && i - st < 10 {
                    i += 1;
                }
                if i < l.len() && (l[i] == b'.' || l[i] == b')') && (i + 1 == l.len() || l[i + 1] == b' ' || l[i + 1] == b'\t') {
                    if let Ok(n) = std::str::from_utf8(&l[st..i]).unwrap_or("").parse::<u64>() {
                        v.push(n);
                    }
                }
            }
            i += 1;
        }
    }
    v
}

/// Some ordered list can reach an item numbered 9, 99, 999, ...: the CommonMark writer computes the
/// marker width of the *next* number when it leaves such an item.
fn ol_crosses_power_of_ten(doc: &[u8]) -> bool {
    let m = ol_markers(doc);
    for (i, n) in m.iter().enumerate() {
        let hi = n + (m.len() - i) as u64 - 1;
        let mut p: u64 = 10;
        while p <= 10_000_000_000 {
            let k = p - 1;
            if *n <= k && k <= hi {
                return true;
            }
            p *= 10;
        }
    }
    false
}

fn has_prefixed_container(doc: &[u8]) -> bool {
    doc.contains(&b'>') || doc.windows(2).any(|w| w == b"[^")
}

/// Signature = narrow syntactic class of (options, document), never derived from the failure text.
pub fn sig_of(o: &Opts, doc: &[u8], entry: &str, clause: &str) -> String {
    match clause {
        "stack-overflow" | "abort" => {
            if o.get("autolink") && email_count(doc) >= 10_000 {
                return "autolink/>=10^4-email-addresses".to_string();
            }
            let d = marker_depth(doc);
            let bucket = if d >= 10_000 { "line-with>=10^4-nesting-markers" } else { "shallow" };
            format!("footnotes={}/{}", if o.get("footnotes") { "on" } else { "off" }, bucket)
        }
        "panic" => {
            if PROFILE == "dev" && entry == "commonmark" && ol_crosses_power_of_ten(doc) && has_prefixed_container(doc) {
                return "debug-build/ordered-item-numbered-9-or-99..-inside-quote-alert-or-footnote-definition".to_string();
            }
            if o.get("autolink") && o.get("footnotes") && fnref_label_with_email_and_nonverbatim(doc, o.get("smart")) {
                "autolink+footnotes/footnote-label-with-email-and-escape-or-entity-or-smart-punctuation".to_string()
            } else if o.get("autolink") && has_email_like(doc) {
                "autolink+email".to_string()
            } else {
                "unclassified".to_string()
            }
        }
        _ => "any".to_string(),
    }
}

// ------------------------------------------------------------------ generators

struct CaseDesc {
    opts: Opts,
    spec: String,
    class: &'static str,
    /// run the case on a thread with this small a stack (KiB): structure that is deep but far from the
    /// sizes that exhaust the usual 8 MiB must not need a stack in proportion to its depth
    stack_kib: Option<usize>,
}

impl CaseDesc {
    fn line(&self) -> String {
        match self.stack_kib {
            Some(k) => format!("doc {} {} stack={}", self.opts.wire(), self.spec, k),
            None => format!("doc {} {}", self.opts.wire(), self.spec),
        }
    }
}

fn text_spec(s: &str) -> String {
    spec_of(&[(s.as_bytes(), 1)])
}

fn opts_variants(r: &mut Rng, n_random: usize) -> Vec<Opts> {
    let mut v = vec![Opts::default(), Opts::gfm(), Opts::all_extensions(), Opts::all_extensions().with("footnotes", false)];
    for _ in 0..n_random {
        v.push(Opts::random(r));
    }
    v
}

/// Deep nesting and long runs. `n` is the repetition count.
fn deep_specs(n: usize, emails_cap: usize) -> Vec<(String, &'static str)> {
    let mut v: Vec<(String, &'static str)> = vec![];
    let rep = |a: &[u8], n: usize, body: &[u8], b: &[u8], m: usize| spec_of(&[(a, n), (body, 1), (b, m)]);
    v.push((rep(b">", n, b" a\n", b"", 0), "deep-blockquote"));
    v.push((rep(b"> ", n, b"a\n", b"", 0), "deep-blockquote-spaced"));
    v.push((rep(b"*", n, b"a", b"*", n), "deep-emphasis-run"));
    v.push((rep(b"*a ", n, b"b", b" c*", n), "deep-emphasis-nested"));
    v.push((rep(b"_a ", n, b"b", b" c_", n), "deep-emphasis-underscore"));
    v.push((rep(b"[", n, b"a", b"]", n), "deep-brackets"));
    v.push((rep(b"[", n, b"a", b"](u)", n), "deep-links"));
    v.push((rep(b"![", n, b"a", b"](u)", n), "deep-images"));
    v.push((rep(b"[a](", n, b"u", b")", n), "deep-parens"));
    v.push((rep(b"~~a ", n, b"b", b" c~~", n), "deep-strikethrough"));
    v.push((rep(b"^a ", n, b"b", b" c^", n), "deep-superscript"));
    v.push((rep(b"||a ", n, b"b", b" c||", n), "deep-spoiler"));
    v.push((rep(b"`", n, b"a", b"`", n), "long-backtick-run"));
    v.push((rep(b"$", n, b"a", b"$", n), "long-dollar-run"));
    v.push((rep(b"<", n, b"a", b">", n), "long-angle-run"));
    v.push((rep(b"\\", n, b"a", b"", 0), "long-backslash-run"));
    v.push((rep(b"&", n, b"a", b";", n), "long-amp-run"));
    v.push((rep(b"#", n, b" a", b"", 0), "long-hash-run"));
    v.push((rep(b"-", n, b"\n", b"", 0), "long-dash-run"));
    v.push((rep(b"|", n, b"\n", b"-|", n), "wide-table"));
    // the e-mail autolink pass is recursive and copies the rest of the text at every level (quadratic): the quick tier
    // stays below the stack limit (the overflow itself is re-established by the known-finding replay at n = 50000)
    v.push((rep(b"a@b.c ", n.min(emails_cap), b"\n", b"", 0), "many-emails"));
    v.push((rep(b"a@b.c\n", n, b"", b"", 0), "many-email-lines"));
    v.push((rep(b"a@b.c\n\n", n, b"", b"", 0), "many-email-paragraphs"));
    v.push((rep(b"www.a.b ", n, b"\n", b"", 0), "many-www"));
    v.push((rep(b"[^a] ", n, b"\n\n[^a]: x\n", b"", 0), "many-footnote-refs"));
    v.push((rep(b"[^a]: ", n.min(20_000), b"x\n", b"", 0), "nested-footnote-defs"));
    v.push((rep(b"- ", n.min(3_000), b"a\n", b"", 0), "deep-list-one-line"));
    v.push((rep(b"1. ", n.min(3_000), b"a\n", b"", 0), "deep-olist-one-line"));
    v.push((rep(b"> - ", n.min(3_000), b"a\n", b"", 0), "deep-quote-list"));
    v.push((rep(b">>> ", n, b"a\n", b"", 0), "deep-blockquote-groups"));
    v.push((rep(b"\t", n, b"a\n", b"", 0), "long-tab-run"));
    v.push((rep(b" ", n, b"a\n", b"", 0), "long-space-run"));
    v.push((rep(b"\n", n, b"a", b"", 0), "many-blank-lines"));
    v.push((rep(b"\r", n, b"a", b"", 0), "many-cr"));
    v.push((rep(b"\0", n, b"a", b"", 0), "many-nul"));
    v.push((rep("\u{feff}".as_bytes(), n, b"a", b"", 0), "many-bom"));
    v.push((rep(b"<div>", n, b"\n", b"", 0), "many-open-tags"));
    v.push((rep(b"<!--", n, b"\n", b"", 0), "many-comment-openers"));
    v.push((rep(b"a\n: ", n.min(20_000), b"b\n", b"", 0), "description-chain"));
    v.push((rep(b"$`a", n.min(4_000), b"", b"", 0), "math-code-openers"));
    // reference expansion across the budget max(100000, input size): a long destination / title used many times,
    // so that expansions fill the budget, one is refused, and further uses follow
    let uses = n.min(600).max(150);
    v.push((spec_of(&[(b"[a]: /", 1), (b"x", 1000), (b"\n\n", 1), (b"[a]\n", uses)]), "reference-expansion-long-url"));
    v.push((spec_of(&[(b"[a]: /u \"", 1), (b"t", 3000), (b"\"\n\n", 1), (b"[a] ", uses)]), "reference-expansion-long-title"));
    v.push((spec_of(&[(b"[a]: /", 1), (b"x", 1000), (b"\n[b]: /", 1), (b"y", 800), (b"\n\n", 1), (b"[a] [b] ![b][a]\n", uses)]), "reference-expansion-two-labels"));
    v
}

/// Indented list nesting across lines: level k is indented 2k spaces (capped by MAX_LIST_DEPTH in the parser).
fn indented_list(levels: usize, marker: &str) -> String {
    let mut s = String::new();
    for k in 0..levels {
        for _ in 0..k * marker.len() {
            s.push(' ');
        }
        s.push_str(marker);
        s.push_str("a\n");
    }
    s
}

/// A code span delimited by `delim` backticks whose content holds one run of each length in `runs`.
fn backtick_span(delim: usize, runs: &[usize]) -> String {
    let mut s = "`".repeat(delim);
    s.push(' ');
    for r in runs {
        s.push_str(&"`".repeat(*r));
        s.push(' ');
    }
    s.push_str(&"`".repeat(delim));
    s.push('\n');
    s
}

fn mutate(r: &mut Rng, s: &str) -> String {
    let mut b: Vec<char> = s.chars().collect();
    let k = r.range(1, 6);
    for _ in 0..k {
        if b.is_empty() {
            break;
        }
        let i = r.below(b.len());
        match r.below(6) {
            0 => {
                b.remove(i);
            }
            1 => b.insert(i, *r.pick(&['\0', '\r', '\n', '\t', '\u{feff}', '`', '*', '[', ']', '|', '>', '<', '\\', '&', '$', '~', '^', '@', ':', '\u{a0}', 'é', '\u{2028}', '-', '#', '"', '\''])),
            2 => {
                let j = r.below(b.len());
                b.swap(i, j);
            }
            3 => {
                let c = b[i];
                let n = r.range(2, 40);
                for _ in 0..n {
                    b.insert(i, c);
                }
            }
            4 => {
                let j = (i + r.range(1, 30)).min(b.len());
                let seg: Vec<char> = b[i..j].to_vec();
                let at = r.below(b.len());
                for (k, c) in seg.into_iter().enumerate() {
                    b.insert((at + k).min(b.len()), c);
                }
            }
            _ => b.truncate(i),
        }
    }
    b.into_iter().collect()
}

fn gen_cases(cfg: &Cfg, rep: &mut Report) -> (Vec<CaseDesc>, Vec<CaseDesc>) {
    let mut r = Rng::new(cfg.seed ^ 0xC01);
    let dev = PROFILE == "dev";
    let mut small: Vec<CaseDesc> = vec![];
    let mut big: Vec<CaseDesc> = vec![];
    let corpus = Corpus::load();

    // 1. random documents x random option vectors
    let n_random = match (cfg.tier_thorough, dev) {
        (true, false) => 3_000_000,
        (true, true) => 300_000,
        (false, false) => 250_000,
        (false, true) => 60_000,
    };
    for i in 0..n_random {
        let (doc, class): (String, &'static str) = match r.below(12) {
            0..=3 => (grammar_doc(&mut r), "grammar"),
            4..=6 => (palette_doc(&mut r), "palette"),
            7 | 8 => (bytes_doc(&mut r), "bytes"),
            9 => (corpus.slice(&mut r), "corpus"),
            10 => {
                let g = grammar_doc(&mut r);
                (mutate(&mut r, &g), "grammar-mutated")
            }
            _ => {
                let g = corpus.slice(&mut r);
                (mutate(&mut r, &g), "corpus-mutated")
            }
        };
        // line-ending / BOM / NUL rewrites of the same text
        let doc = match r.below(10) {
            0 => doc.replace('\n', "\r\n"),
            1 => doc.replace('\n', "\r"),
            2 => format!("\u{feff}{}", doc),
            3 => doc.replace(' ', "\0"),
            4 => doc.trim_end_matches('\n').to_string(),
            _ => doc,
        };
        let o = Opts::random(&mut r);
        if i < 3 {
            rep.sample(format!("{} {:?} opts [{}]", class, doc.chars().take(160).collect::<String>(), o.describe()));
        }
        small.push(CaseDesc { opts: o, spec: text_spec(&doc), class, stack_kib: None });
    }

    // 2. every backtick run length inside code spans of every delimiter length
    let maxrun = 100;
    let delims: Vec<usize> = if cfg.tier_thorough { (1..=maxrun + 1).collect() } else { vec![1, 2, 3, 5, 31, 32, 33, 34, 64, 65, 100, 101] };
    for &d in &delims {
        for k in 1..=maxrun {
            if k == d {
                continue;
            }
            // a single run of length k
            small.push(CaseDesc { opts: Opts::default(), spec: text_spec(&backtick_span(d, &[k])), class: "backtick-single-run", stack_kib: None });
        }
        // all runs 1..m except d, for m in a few places incl. 31, 32, 33 (the old bit-set boundary)
        for m in [5usize, 30, 31, 32, 33, 40, 64, 100] {
            let runs: Vec<usize> = (1..=m).filter(|x| *x != d).collect();
            small.push(CaseDesc { opts: Opts::default(), spec: text_spec(&backtick_span(d, &runs)), class: "backtick-all-runs", stack_kib: None });
            small.push(CaseDesc { opts: Opts::all_extensions(), spec: text_spec(&backtick_span(d, &runs)), class: "backtick-all-runs", stack_kib: None });
        }
    }
    // the same with '$' under math_dollars, and fenced code containing long fences
    for d in [1usize, 2, 3, 32, 33] {
        let s = backtick_span(d, &(1..=40).filter(|x| *x != d).collect::<Vec<_>>()).replace('`', "$");
        small.push(CaseDesc { opts: Opts::all_extensions(), spec: text_spec(&s), class: "dollar-all-runs", stack_kib: None });
    }
    for n in [3usize, 4, 31, 32, 33, 100, 1000] {
        let f = "`".repeat(n);
        let t = "~".repeat(n);
        small.push(CaseDesc { opts: Opts::default(), spec: text_spec(&format!("{}\n{}\n{}\n", "`".repeat(n + 1), f, "`".repeat(n + 1))), class: "fence-in-fence", stack_kib: None });
        small.push(CaseDesc { opts: Opts::default(), spec: text_spec(&format!("{}\n{}\n{}\n", "~".repeat(n + 1), t, "~".repeat(n + 1))), class: "fence-in-fence", stack_kib: None });
        small.push(CaseDesc { opts: Opts::default().with("prefer_fenced", true), spec: text_spec(&format!("    {}\n    {}\n", f, t)), class: "fence-in-indented", stack_kib: None });
    }

    // 3. deep nesting / long runs, several sizes, with and without footnotes
    let sizes: Vec<usize> = match (cfg.tier_thorough, dev) {
        (true, false) => vec![1_000, 30_000, 200_000, 1_000_000],
        (true, true) => vec![1_000, 30_000, 100_000],
        (false, false) => vec![1_000, 20_000, 100_000],
        (false, true) => vec![1_000, 20_000],
    };
    // (the dev profile is 10-30 times slower: fewer random option vectors there)
    let variants = opts_variants(&mut r, if cfg.tier_thorough && !dev { 4 } else { 1 });
    for &n in &sizes {
        for (spec, class) in deep_specs(n, if cfg.tier_thorough && !dev { 200_000 } else { 8_000 }) {
            for o in &variants {
                let cd = CaseDesc { opts: o.clone(), spec: spec.clone(), class, stack_kib: None };
                if n >= 20_000 {
                    big.push(cd);
                } else {
                    small.push(cd);
                }
            }
        }
    }
    for levels in [10usize, 100, 400] {
        for m in ["- ", "1. ", "> ", "* "] {
            for o in &variants {
                small.push(CaseDesc { opts: o.clone(), spec: text_spec(&indented_list(levels, m)), class: "indented-nesting", stack_kib: None });
            }
        }
    }
    // lists nested far deeper than one line can open (each line adds 90 levels below the previous line's), with a
    // sibling after the outermost item so that the outer lists are finalized over the deep chain; on a 512 KiB stack
    for (lines, marker) in [(60usize, "- "), (230, "- "), (120, "1. "), (120, "> - ")] {
        let per = 90usize;
        let mut parts: Vec<(Vec<u8>, usize)> = vec![];
        for k in 0..lines {
            parts.push((b" ".to_vec(), marker.len() * per * k));
            parts.push((marker.as_bytes().to_vec(), per));
            parts.push((b"a\n".to_vec(), 1));
        }
        parts.push((format!("{}z\n", marker).into_bytes(), 1));
        let refs: Vec<(&[u8], usize)> = parts.iter().filter(|(_, n)| *n > 0).map(|(b, n)| (b.as_slice(), *n)).collect();
        let spec = spec_of(&refs);
        for o in &variants {
            big.push(CaseDesc { opts: o.clone(), spec: spec.clone(), class: "deep-list-across-lines-small-stack", stack_kib: Some(512) });
        }
    }
    // tables that reach the auto-completion cap: the rows after it are completed no further, and every
    // renderer walks the alignments of a table whose rows stopped short
    for (cols, rows) in if dev { vec![(2000usize, 260usize)] } else { vec![(2000usize, 260usize), (600, 1000)] } {
        let spec = spec_of(&[(b"|a", cols), (b"|\n", 1), (b"|-", cols), (b"|\n", 1), (b"|x\n", rows), (b"\nafter\n", 1)]);
        for o in [Opts::all_extensions(), Opts::gfm()] {
            big.push(CaseDesc { opts: o, spec: spec.clone(), class: "table-at-autocompletion-cap", stack_kib: None });
        }
    }
    // inlines nested far deeper than any recursion over the tree can follow, inside a heading whose text is
    // collected for its anchor (header_ids) and inside a link / image whose text is collected for alt text
    {
        let n = if dev { 40_000usize } else { 400_000 };
        let mut o = Opts::all_extensions();
        o.header_ids = Some("h-".to_string());
        for (pre, open, close) in [("# ", "*a ", " b*"), ("# ", "[a ", " b](u)"), ("![", "*a ", " b*](u)\n\n# x")] {
            let spec = spec_of(&[(pre.as_bytes(), 1), (open.as_bytes(), n), (b"x", 1), (close.as_bytes(), n), (b"\n", 1)]);
            big.push(CaseDesc { opts: o.clone(), spec, class: "deep-inlines-in-heading-with-ids", stack_kib: None });
        }
    }
    rep.add("cases-small", small.len() as u64);
    rep.add("cases-big", big.len() as u64);
    (small, big)
}

// ------------------------------------------------------------------ parent side

fn last_stage(stderr: &str) -> &'static str {
    let mut last = "start";
    for l in stderr.lines() {
        match l {
            "@parse" => last = "parse",
            "@html" => last = "html",
            "@commonmark" => last = "commonmark",
            "@xml" => last = "xml",
            "@markdown_to" => last = "markdown_to",
            "@done" => last = "done",
            _ => {}
        }
    }
    last
}

fn judge(rep: &mut Report, cd_opts: &Opts, spec: &str, input: String, out: &Outcome) {
    // four entry points per case
    rep.s_evals += 4;
    let doc = || expand_spec(spec).unwrap_or_default();
    match out {
        Outcome::Reply(l, _ms) => {
            if let Some(rest) = l.strip_prefix("ok ") {
                let _ = rest;
            } else if let Some(rest) = l.strip_prefix("fail ") {
                for f in rest.split(';') {
                    let p: Vec<&str> = f.splitn(3, '|').collect();
                    if p.len() < 3 {
                        continue;
                    }
                    let detail = String::from_utf8_lossy(&unhex(p[2]).unwrap_or_default()).to_string();
                    let kind = format!("{}-{}", p[0], p[1]);
                    let sig = sig_of(cd_opts, &doc(), p[0], p[1]);
                    rep.fail(&kind, &sig, input.clone(), format!("[{} build] {} {}: {}", PROFILE, p[0], p[1], detail));
                }
            } else {
                rep.fail("worker-protocol", "any", input, format!("unexpected worker answer {:?}", l));
            }
        }
        Outcome::Hang(ms) => {
            let sig = sig_of(cd_opts, &doc(), "", "hang");
            rep.fail("hang", &sig, input, format!("[{} build] no answer within {} ms (re-run alone with a tripled budget)", PROFILE, ms));
        }
        Outcome::Died { how, stderr } => {
            let st = last_stage(stderr);
            let so = stderr.contains("overflowed its stack");
            let clause = if so { "stack-overflow" } else { "abort" };
            let sig = sig_of(cd_opts, &doc(), st, clause);
            let tail: String = stderr.lines().filter(|l| !l.starts_with('@')).collect::<Vec<_>>().join(" / ");
            rep.fail(clause, &sig, input, format!("[{} build] worker process died ({}) during entry point '{}': {}", PROFILE, how, st, tail));
        }
    }
}


// ------------------------------------------------------------------ shrinking

/// Does this (options, text) still fail with the given kind? Evaluated in isolated workers, all candidates in parallel.
fn failing_kinds(o: &Opts, spec: &str, out: &Outcome) -> Vec<String> {
    let mut rep = Report::new("C01");
    judge(&mut rep, o, spec, String::new(), out);
    rep.s_fail.iter().map(|c| c.kind.clone()).collect()
}

fn first_failing(cands: &[(Opts, String)], kind: &str) -> Option<usize> {
    let lines: Vec<String> = cands.iter().map(|(o, d)| format!("doc {} {}", o.wire(), text_spec(d))).collect();
    let outs = run_cases("C01", &lines, Duration::from_secs(30), default_workers());
    for (i, out) in outs.iter().enumerate() {
        if failing_kinds(&cands[i].0, &text_spec(&cands[i].1), out).iter().any(|k| k == kind) {
            return Some(i);
        }
    }
    None
}

/// Line-wise, then chunk-wise (characters), then option-wise reduction preserving the failing oracle clause.
pub fn shrink(o: &Opts, doc: &str, kind: &str) -> (Opts, String) {
    let mut o = o.clone();
    let mut doc = doc.to_string();
    if doc.len() > 20_000 {
        return (o, doc);
    }
    for _round in 0..600 {
        let mut progressed = false;
        // lines
        let lines: Vec<&str> = doc.split_inclusive('\n').collect();
        if lines.len() > 1 {
            let cands: Vec<(Opts, String)> = (0..lines.len())
                .map(|i| (o.clone(), lines.iter().enumerate().filter(|(j, _)| *j != i).map(|(_, l)| *l).collect::<String>()))
                .collect();
            if let Some(i) = first_failing(&cands, kind) {
                doc = cands[i].1.clone();
                continue;
            }
        }
        // chunks of characters
        let chars: Vec<char> = doc.chars().collect();
        let mut size = (chars.len() / 2).max(1);
        while size >= 1 {
            let mut cands = vec![];
            let mut start = 0;
            while start < chars.len() {
                let end = (start + size).min(chars.len());
                let c: String = chars[..start].iter().chain(chars[end..].iter()).collect();
                cands.push((o.clone(), c));
                start += size.max(1);
                if cands.len() > 400 {
                    break;
                }
            }
            if let Some(i) = first_failing(&cands, kind) {
                doc = cands[i].1.clone();
                progressed = true;
                break;
            }
            if size == 1 {
                break;
            }
            size /= 2;
        }
        if progressed {
            continue;
        }
        // simplify characters: multi-byte / punctuation -> 'a'
        let chars: Vec<char> = doc.chars().collect();
        let cands: Vec<(Opts, String)> = (0..chars.len())
            .filter(|i| chars[*i] != 'a' && chars[*i] != '\n')
            .map(|i| {
                let mut c = chars.clone();
                c[i] = 'a';
                (o.clone(), c.into_iter().collect())
            })
            .collect();
        if let Some(i) = first_failing(&cands, kind) {
            doc = cands[i].1.clone();
            continue;
        }
        // options
        let mut cands = vec![];
        for i in 0..o.bits.len() {
            if o.bits[i] {
                let mut oo = o.clone();
                oo.bits[i] = false;
                cands.push((oo, doc.clone()));
            }
        }
        let mut plain = o.clone();
        plain.header_ids = None;
        plain.front_matter_delimiter = None;
        plain.default_info_string = None;
        plain.width = 0;
        plain.ol_width = 0;
        plain.list_style = 0;
        if plain != o {
            cands.push((plain, doc.clone()));
        }
        if let Some(i) = first_failing(&cands, kind) {
            o = cands[i].0.clone();
            continue;
        }
        break;
    }
    (o, doc)
}

fn run_group(rep: &mut Report, cases: &[CaseDesc], budget: Duration, workers: usize) {
    let lines: Vec<String> = cases.iter().map(|c| c.line()).collect();
    let outs = run_cases("C01", &lines, budget, workers);
    for ((cd, line), out) in cases.iter().zip(lines).zip(outs.iter()) {
        rep.count(&format!("class-{}", cd.class));
        if let Outcome::Reply(l, ms) = out {
            if l.starts_with("ok ") {
                rep.nontrivial(&(cd.class, &cd.spec));
            }
            let b = if *ms < 10 { "<10ms" } else if *ms < 100 { "<100ms" } else if *ms < 1000 { "<1s" } else { ">=1s" };
            rep.count(&format!("time-{}", b));
            if *ms >= 1000 {
                rep.add(&format!("slow-ms-{}", cd.class), *ms);
                if std::env::var("CVH_DEBUG").is_ok() {
                    eprintln!("slow {} ms {} {} [{}]", ms, cd.class, &cd.spec[..cd.spec.len().min(60)], cd.opts.describe());
                }
            }
        }
        judge(rep, &cd.opts, &cd.spec, line, out);
    }
}

pub fn run(cfg: &Cfg, rep: &mut Report) {
    rep.rule = "S: isolated worker processes (8 MiB case stack, wall-clock watchdog, exit status) run parse_document + format_html/commonmark/xml (+ markdown_to_* on small inputs) on: random grammar/palette/bytes/corpus documents and mutations of them with CRLF/CR/BOM/NUL rewrites x Opts::random; every backtick run length 1..100 in code spans of many delimiter lengths; prefix^n body suffix^n deep-nesting and long-run families at n up to 10^5 (quick) / 10^6 (thorough, release) under default/GFM/all-extensions/all-but-footnotes/random options. Both build profiles (release; dev = debug assertions + overflow checks). K: hooks vs Lean models of the named mechanisms.".into();
    rep.notes.push(format!("profile={}", PROFILE));
    k_stage(cfg, rep);
    let (small, big) = gen_cases(cfg, rep);
    let w = default_workers();
    let t0 = std::time::Instant::now();
    let small = if std::env::var("CVH_ONLY_BIG").is_ok() { vec![] } else { small };
    run_group(rep, &small, Duration::from_secs(if cfg.tier_thorough { 60 } else { 30 }), w);
    rep.notes.push(format!("small cases: {} in {:.1}s", small.len(), t0.elapsed().as_secs_f64()));
    let t1 = std::time::Instant::now();
    run_group(rep, &big, Duration::from_secs(if cfg.tier_thorough { 240 } else { 60 }), w.min(8));
    rep.notes.push(format!("big cases: {} in {:.1}s", big.len(), t1.elapsed().as_secs_f64()));
}


// ------------------------------------------------------------------ K: mechanisms vs Lean models

fn real_or_panic<T>(f: impl FnOnce() -> T) -> Option<T> {
    catch_unwind(AssertUnwindSafe(f)).ok()
}

fn words_over(alpha: &[u8], maxlen: usize) -> Vec<Vec<u8>> {
    let mut all: Vec<Vec<u8>> = vec![vec![]];
    let mut cur: Vec<Vec<u8>> = vec![vec![]];
    for _ in 0..maxlen {
        let mut next = vec![];
        for w in &cur {
            for &c in alpha {
                let mut t = w.clone();
                t.push(c);
                next.push(t);
            }
        }
        all.extend(next.iter().cloned());
        cur = next;
    }
    all
}

fn k_su<'a>(bt: &mut Batch<'a>, rep: &mut Report, lit: Vec<u8>, f: u8) {
    let real = real_or_panic(|| comrak::verif::shortest_unused_sequence(&lit, f));
    let want = match real {
        Some(n) => n.to_string(),
        None => "PANIC".to_string(),
    };
    if real.is_none() {
        rep.fail("mechanism-total", "shortest_unused_sequence", format!("su {} {:02x}", hex(&lit), f), "shortest_unused_sequence panics".into());
    }
    let inp = format!("su {} {:02x}", hex(&lit), f);
    bt.push(format!("c01su {} {:02x}", hex(&lit), f), move |resp, rep| {
        rep.k_evals += 1;
        if resp != want {
            rep.disagree("shortest-unused-model", inp, format!("real={} model={}", want, resp));
        }
    });
}

type Seg = ((usize, usize, usize, usize), usize);

fn fmt_nats(v: &[usize]) -> String {
    if v.is_empty() { "-".into() } else { v.iter().map(|x| x.to_string()).collect::<Vec<_>>().join(",") }
}
fn fmt_segs(q: &[Seg]) -> String {
    if q.is_empty() {
        "-".into()
    } else {
        q.iter().map(|((a, b, c, d), x)| format!("{},{},{},{},{}", a, b, c, d, x)).collect::<Vec<_>>().join(";")
    }
}
fn parse_nats(s: &str) -> Option<Vec<usize>> {
    if s == "-" { return Some(vec![]); }
    s.split(',').map(|x| x.parse().ok()).collect()
}
fn parse_segs(s: &str) -> Option<Vec<Seg>> {
    if s == "-" { return Some(vec![]); }
    s.split(';').map(|t| { let v = parse_nats(t)?; if v.len() == 5 { Some(((v[0], v[1], v[2], v[3]), v[4])) } else { None } }).collect()
}

fn k_spx<'a>(bt: &mut Batch<'a>, rep: &mut Report, segs: Vec<Seg>, rems: Vec<usize>) {
    let real = real_or_panic(|| comrak::verif::spx_consume(&segs, &rems));
    let want = match &real {
        Some((res, left)) => format!("some {} {}", fmt_nats(res), fmt_segs(left)),
        None => "none".to_string(),
    };
    rep.count(if real.is_some() { "spx-defined" } else { "spx-panics" });
    let inp = format!("spx {} {}", fmt_nats(&rems), fmt_segs(&segs));
    bt.push(format!("c01spx {} {}", fmt_nats(&rems), fmt_segs(&segs)), move |resp, rep| {
        rep.k_evals += 1;
        if resp != want {
            rep.disagree("spx-consume-model", inp, format!("real={} model={}", want, resp));
        }
    });
}

fn k_ent<'a>(bt: &mut Batch<'a>, rep: &mut Report, text: Vec<u8>) {
    let real = real_or_panic(|| comrak::verif::entity_unescape(&text));
    let want = match &real {
        None => "overflow".to_string(),
        Some(None) => "fallthrough".to_string(),
        Some(Some((b, n))) => match std::str::from_utf8(b).ok().and_then(|s| { let mut it = s.chars(); let c = it.next()?; if it.next().is_none() { Some(c) } else { None } }) {
            Some(c) => format!("hit {} {}", c as u32, n),
            None => format!("named {} {}", hex(b), n),
        },
    };
    if real.is_none() {
        rep.fail("mechanism-total", "entity-unescape", format!("ent {}", hex(&text)), format!("[{} build] entity::unescape panics on {:?}", PROFILE, show(&text)));
    }
    rep.count(&format!("ent-{}", want.split(' ').next().unwrap_or("")));
    let inp = format!("ent {}", hex(&text));
    bt.push(format!("c01ent {}", hex(&text)), move |resp, rep| {
        rep.k_evals += 1;
        if resp != want {
            rep.disagree("numeric-entity-model", inp, format!("real={} model={}", want, resp));
        }
    });
}

fn opt_hex(v: Option<Vec<u8>>) -> String {
    match v {
        Some(b) => format!("some {}", hex(&b)),
        None => "none".to_string(),
    }
}

fn k_str<'a>(bt: &mut Batch<'a>, rep: &mut Report, which: &'static str, v: Vec<u8>) {
    let (cmd, want) = match which {
        "ncode" => ("c01ncode", match real_or_panic(|| comrak::verif::normalize_code(&v)) { Some(b) => hex(&b), None => "PANIC".into() }),
        "chop" => ("c01chop", opt_hex(real_or_panic(|| comrak::verif::chop_trailing_hashtags(&v)))),
        _ => {
            let s = match std::str::from_utf8(&v) { Ok(s) => s.to_string(), Err(_) => return };
            ("c01rtbl", opt_hex(real_or_panic(|| comrak::verif::remove_trailing_blank_lines(&s).into_bytes())))
        }
    };
    if want == "none" {
        rep.count(&format!("{}-panics(outside-caller-guard)", which));
    }
    let inp = format!("{} {}", which, hex(&v));
    bt.push(format!("{} {}", cmd, hex(&v)), move |resp, rep| {
        rep.k_evals += 1;
        if resp != want {
            rep.disagree(&format!("{}-model", which), inp, format!("real={} model={}", want, resp));
        }
    });
}

fn gen_segs(r: &mut Rng) -> (Vec<Seg>, Vec<usize>) {
    let n = r.range(0, 5);
    let mut col = r.range(1, 4);
    let mut segs = vec![];
    let mut total = 0;
    for _ in 0..n {
        let lo = if r.chance(1, 10) { 0 } else { 1 };
        let x = r.range(lo, 6);
        // verbatim: one column per byte; otherwise the span is shorter or longer than the text (smart punctuation, escapes, entities)
        let span = if r.chance(3, 4) { x.max(1) } else { r.range(1, 7) };
        segs.push(((1, col, 1, col + span - 1), x));
        col += span;
        total += x;
    }
    let k = r.range(1, 4);
    let mut rems = vec![];
    let mut left = total + if r.chance(1, 8) { 2 } else { 0 };
    for _ in 0..k {
        let t = r.range(0, left.min(7));
        rems.push(t);
        left -= t;
    }
    (segs, rems)
}

fn k_stage(cfg: &Cfg, rep: &mut Report) {
    let m = Model::from_env();
    let mut r = Rng::new(cfg.seed ^ 0xC01_4B);
    let scale = if cfg.tier_thorough { 10 } else { 1 };
    // shortest_unused_sequence: all run-length sets around the 32 boundary + random literals
    let mut bt = Batch::new();
    for d in [1usize, 2, 31, 32, 33] {
        for m in [0usize, 1, 2, 5, 30, 31, 32, 33, 40, 64] {
            let runs: Vec<usize> = (1..=m).filter(|x| *x != d).collect();
            let lit = backtick_span(0, &runs).into_bytes();
            k_su(&mut bt, rep, lit, b'`');
        }
    }
    for k in 0..=70usize {
        k_su(&mut bt, rep, "`".repeat(k).into_bytes(), b'`');
        k_su(&mut bt, rep, format!("a{}b", "`".repeat(k)).into_bytes(), b'`');
    }
    for _ in 0..3000 * scale {
        let n = r.range(0, 60);
        let lit: Vec<u8> = (0..n).map(|_| *r.pick(&[b'`', b'`', b'`', b'a', b' ', b'~'])).collect();
        k_su(&mut bt, rep, lit, *r.pick(&[b'`', b'`', b'~']));
    }
    // every subset of run lengths {1..12} in increasing order (4096 literals)
    for mask in 0u32..4096 {
        let runs: Vec<usize> = (1..=12).filter(|i| mask >> (i - 1) & 1 == 1).collect();
        k_su(&mut bt, rep, backtick_span(0, &runs).into_bytes(), b'`');
    }
    rep.exhaustive_what.push("shortest_unused_sequence: every subset of the run lengths 1..12; every single run 0..70; all-runs 1..m around m = 31, 32, 33".into());
    bt.run(&m, rep);
    // Spx::consume
    let mut bt = Batch::new();
    k_spx(&mut bt, rep, vec![((1, 1, 1, 11), 10)], vec![3]);
    k_spx(&mut bt, rep, vec![], vec![0]);
    for _ in 0..20_000 * scale {
        let (segs, rems) = gen_segs(&mut r);
        k_spx(&mut bt, rep, segs, rems);
    }
    bt.run(&m, rep);
    // entity::unescape, numeric branch
    let mut bt = Batch::new();
    for _ in 0..20_000 * scale {
        let mut t = vec![b'#'];
        match r.below(3) {
            0 => {}
            1 => t.push(b'x'),
            _ => t.push(b'X'),
        }
        let hi = if r.chance(1, 5) { 40 } else { 9 };
        let n = r.range(0, hi);
        for _ in 0..n {
            t.push(*r.pick(b"0123456789abcdefABCDEF09fF"));
        }
        match r.below(6) {
            0 => t.push(b' '),
            1 => t.push(b'g'),
            2 => {}
            _ => t.push(b';'),
        }
        if r.chance(1, 4) {
            t.extend_from_slice(b"x;");
        }
        k_ent(&mut bt, rep, t);
    }
    for cp in [0u32, 1, 0x7f, 0xD7FF, 0xD800, 0xDFFF, 0xE000, 0xE001, 0xFFFD, 0x10FFFF, 0x110000, 0x110001, 9_999_999, 0xFFFFFF] {
        k_ent(&mut bt, rep, format!("#{};", cp).into_bytes());
        k_ent(&mut bt, rep, format!("#x{:x};", cp).into_bytes());
        k_ent(&mut bt, rep, format!("#X{:X};", cp).into_bytes());
    }
    bt.run(&m, rep);
    // strings: exhaustive short strings over the significant alphabet + random longer ones
    let mut bt = Batch::new();
    let maxlen = if cfg.tier_thorough { 6 } else { 5 };
    let ws = words_over(b"# \t\n\ra", maxlen);
    let nws = ws.len();
    for w in ws {
        k_str(&mut bt, rep, "chop", w.clone());
        k_str(&mut bt, rep, "rtbl", w.clone());
    }
    for w in words_over(b" \r\na`", maxlen + 1) {
        k_str(&mut bt, rep, "ncode", w);
    }
    rep.exhaustive = true;
    rep.exhaustive_what.push(format!("chop_trailing_hashtags, remove_trailing_blank_lines: all {} strings of length <= {} over {{#,space,tab,LF,CR,a}}; normalize_code: all strings of length <= {} over {{space,CR,LF,a,`}}", nws, maxlen, maxlen + 1));
    for _ in 0..5000 * scale {
        let n = r.range(0, 30);
        let w: Vec<u8> = (0..n).map(|_| *r.pick(b"##  \t\n\rab\\")).collect();
        k_str(&mut bt, rep, *r.pick(&["chop", "rtbl", "ncode"]), w);
    }
    bt.run(&m, rep);
}

pub fn replay(kind: &str, input: &str) -> Result<Option<String>, String> {
    let toks: Vec<&str> = input.split(' ').collect();
    if matches!(toks.first(), Some(&"su") | Some(&"spx") | Some(&"ent") | Some(&"chop") | Some(&"rtbl") | Some(&"ncode")) && toks.len() >= 2 {
        let m = Model::from_env();
        let mut rep = Report::new("C01");
        let mut bt = Batch::new();
        match toks[0] {
            "su" if toks.len() >= 3 => k_su(&mut bt, &mut rep, unhex(toks[1]).ok_or("bad hex")?, u8::from_str_radix(toks[2], 16).map_err(|_| "bad byte")?),
            "spx" if toks.len() >= 3 => k_spx(&mut bt, &mut rep, parse_segs(toks[2]).ok_or("bad segs")?, parse_nats(toks[1]).ok_or("bad rems")?),
            "ent" => k_ent(&mut bt, &mut rep, unhex(toks[1]).ok_or("bad hex")?),
            "chop" => k_str(&mut bt, &mut rep, "chop", unhex(toks[1]).ok_or("bad hex")?),
            "rtbl" => k_str(&mut bt, &mut rep, "rtbl", unhex(toks[1]).ok_or("bad hex")?),
            _ => k_str(&mut bt, &mut rep, "ncode", unhex(toks[1]).ok_or("bad hex")?),
        }
        bt.run(&m, &mut rep);
        for c in rep.s_fail.iter().chain(rep.k_disagree.iter()) {
            if kind.is_empty() || c.kind == kind {
                return Ok(Some(format!("{}: {}", c.kind, c.detail)));
            }
        }
        return Ok(None);
    }
    if toks.first() != Some(&"doc") || toks.len() < 9 {
        return Err("bad replay input (want: doc <opts wire> <docspec>)".into());
    }
    let o = Opts::from_wire(&toks[1..8]).ok_or("bad options")?;
    let mut rep = Report::new("C01");
    let outs = run_cases("C01", &[input.to_string()], Duration::from_secs(60), 1);
    judge(&mut rep, &o, toks[8], input.to_string(), &outs[0]);
    for c in rep.s_fail.iter() {
        if kind.is_empty() || c.kind == kind {
            if std::env::var("CVH_SHRINK").is_ok() {
                if let Some(md) = expand_spec(toks[8]).and_then(|b| String::from_utf8(b).ok()) {
                    let (so, sd) = shrink(&o, &md, &c.kind);
                    eprintln!("shrunk: doc {} {}  = {:?} opts [{}]", so.wire(), text_spec(&sd), sd, so.describe());
                }
            }
            return Ok(Some(format!("{} [{}]: {}", c.kind, c.sig, c.detail)));
        }
    }
    Ok(None)
}
