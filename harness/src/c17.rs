//! C17: CommonMark formatting is idempotent (S oracle on the real code; the K part
//! for the model of cm.rs is shared with C07 and lives in `cmk.rs`).
use crate::cmrt::{self, Clause};
use crate::report::Report;
use crate::Cfg;

pub fn run(cfg: &Cfg, rep: &mut Report) {
    rep.rule = "S: documents built from the standard constructs (cmrt::std_doc: paragraphs, ATX/setext headings, thematic breaks, fenced/indented code, block quotes, bullet/ordered lists tight/loose with task items, HTML blocks, tables, one footnote; inlines: text over an alphabet with every Markdown-significant character, emphasis/strong, code spans, links with titles, images, angle autolinks, hard breaks, entities, backslash escapes, strikethrough) and canonical documents of the C03 model (driver `canon`), x GFM extensions (+footnotes) in every combination x list_style x prefer_fenced, with width = 0, ol_width = 0 or 2..6, smart off: cm(parse(cm(parse x))) == cm(parse x) byte for byte. Each failure is shrunk (lines, characters, options) and attributed by counterfactual: it belongs to a listed mechanism iff removing that mechanism's trigger from the parsed tree makes the clause pass (shrunk input first, else the generated document); unexplained failures keep a mechanical signature (first structural difference) and are violations. K: renderCm vs format_commonmark on documents and direct trees under ALL options including width 1..120, ol_width, smart; outc/table_escape/shortest_unused_sequence/longest_char_sequence through hooks (exhaustive finite domains)".into();
    if std::env::var("CMRT_NOK").is_err() {
        cmrt::run_k_outc(rep);
        cmrt::run_k_helpers(rep, cfg.seed ^ 0xC17 ^ 0x48);
        cmrt::run_k(rep, cfg.seed ^ 0xC17 ^ 0x4B, if cfg.tier_thorough { 60_000 } else { 6_000 }, Clause::Idem);
    }
    let n = std::env::var("CMRT_N").ok().and_then(|v| v.parse().ok()).unwrap_or(if cfg.tier_thorough { 40_000 } else { 12_000 });
    let cases = cmrt::gen_cases(cfg.seed ^ 0xC17, n);
    for c in cases.iter().take(3) {
        rep.sample(format!("doc {:?} opts [{}]", crate::util::show(c.md.as_bytes()), c.o.describe()));
    }
    cmrt::search(rep, &cases, Clause::Idem, 4000);
    // the class of cm_fixed_point_canon_partial, on the real parser and the real writer
    crate::c03::run_canoncm(rep, if cfg.tier_thorough { 3000 } else { 400 });
}

pub fn replay(kind: &str, input: &str) -> Result<Option<String>, String> {
    if input.starts_with("canoncm ") {
        let mut rep = Report::new("C17");
        let toks: Vec<&str> = input.split(' ').collect();
        let seed: u64 = toks.get(1).and_then(|x| x.parse().ok()).ok_or("bad canoncm input")?;
        // (the sizes 3, 9, 14 of that seed are replayed together)
        let _ = seed;
        crate::c03::run_canoncm_one(&mut rep, seed);
        return Ok(rep.s_fail.first().map(|c| format!("{}: {}", c.kind, c.detail)).or_else(|| rep.k_disagree.first().map(|c| format!("{}: {}", c.kind, c.detail))));
    }
    if kind == "cm-bytes" {
        return cmrt::replay_k(input);
    }
    cmrt::replay(Clause::Idem, kind, input)
}
