//! C17: CommonMark formatting is idempotent (S oracle on the real code; the K part
//! for the model of cm.rs is shared with C07 and lives in `cmk.rs`).
use crate::cmrt::{self, Clause};
use crate::report::Report;
use crate::Cfg;

pub fn run(cfg: &Cfg, rep: &mut Report) {
    rep.rule = "S: documents from the construct grammar (gen::grammar_doc), significant-alphabet text in paragraphs/headings/tables/quotes/lists/fences/footnotes (cmrt::sig_doc), the palette and corpus slices x option vectors of the claimed class (GFM extensions + footnotes in all combinations, width 0 or 1..120, ol_width 0..8, list_style, prefer_fenced, hardbreaks, smart, front matter, ...): cm(parse(cm(parse x))) == cm(parse x) byte for byte; failures are shrunk (lines, characters, options) and classified by the syntactic class of the shrunk input".into();
    if std::env::var("CMRT_NOK").is_err() {
        cmrt::run_k_outc(rep);
        cmrt::run_k_helpers(rep, cfg.seed ^ 0xC17 ^ 0x48);
        cmrt::run_k(rep, cfg.seed ^ 0xC17 ^ 0x4B, if cfg.tier_thorough { 60_000 } else { 6_000 });
    }
    let n = std::env::var("CMRT_N").ok().and_then(|v| v.parse().ok()).unwrap_or(if cfg.tier_thorough { 40_000 } else { 12_000 });
    let cases = cmrt::gen_cases(cfg.seed ^ 0xC17, n);
    for c in cases.iter().take(3) {
        rep.sample(format!("doc {:?} opts [{}]", crate::util::show(c.md.as_bytes()), c.o.describe()));
    }
    cmrt::search(rep, &cases, Clause::Idem, 4000);
}

pub fn replay(kind: &str, input: &str) -> Result<Option<String>, String> {
    if kind == "cm-bytes" {
        return cmrt::replay_k(input);
    }
    cmrt::replay(Clause::Idem, kind, input)
}
