//! Shared renderer correspondence: parse (or build) a tree with the real comrak, render it with
//! the real formatter, and ask the Lean model to render the *same* tree.
use crate::opts::Opts;
use crate::ser::{kind_seq, ser_tree};
use crate::util::hex;
use comrak::nodes::{AstNode, NodeValue};
use comrak::{format_html, parse_document, Anchorizer, Arena};
use std::panic::{catch_unwind, AssertUnwindSafe};

pub struct Rendered {
    pub html: Vec<u8>,
    pub tree_wire: String,
    pub norm_wire: String,
    pub kinds: Vec<&'static str>,
    pub valid: bool,
    pub has_raw_html: bool,
}

/// `A<n> text norm ...` for every heading of the tree (only consulted when header_ids is on).
pub fn norm_wire<'a>(root: &'a AstNode<'a>) -> String {
    let mut pairs: Vec<(Vec<u8>, Vec<u8>)> = vec![];
    for n in root.descendants() {
        if let NodeValue::Heading(_) = n.data.borrow().value {
            let mut t = Vec::new();
            comrak::html::collect_text(n, &mut t);
            if let Ok(s) = String::from_utf8(t.clone()) {
                let mut a = Anchorizer::new();
                let id = a.anchorize(s);
                if !pairs.iter().any(|p| p.0 == t) {
                    pairs.push((t, id.into_bytes()));
                }
            }
        }
    }
    let mut s = format!("A{}", pairs.len());
    for (t, m) in pairs {
        s.push(' ');
        s.push_str(&hex(&t));
        s.push(' ');
        s.push_str(&hex(&m));
    }
    s
}

pub fn render_root<'a>(root: &'a AstNode<'a>, o: &Opts) -> Result<Rendered, String> {
    let c = o.to_comrak();
    let html = catch_unwind(AssertUnwindSafe(|| {
        let mut out = Vec::new();
        format_html(root, &c, &mut out).unwrap();
        out
    }))
    .map_err(|_| "PANIC in format_html".to_string())?;
    let has_raw_html = root.descendants().any(|n| {
        matches!(n.data.borrow().value, NodeValue::HtmlBlock(_) | NodeValue::HtmlInline(_) | NodeValue::Raw(_))
    });
    Ok(Rendered {
        html,
        tree_wire: ser_tree(root),
        norm_wire: norm_wire(root),
        kinds: kind_seq(root),
        valid: root.validate().is_ok(),
        has_raw_html,
    })
}

pub fn parse_and_render(md: &str, o: &Opts) -> Result<Rendered, String> {
    let c = o.to_comrak();
    let arena = Arena::new();
    let root = catch_unwind(AssertUnwindSafe(|| parse_document(&arena, md, &c))).map_err(|_| "PANIC in parse_document".to_string())?;
    render_root(root, o)
}

pub fn html_request(o: &Opts, r: &Rendered) -> String {
    format!("html {} {} {}", o.wire(), r.norm_wire, r.tree_wire)
}

/// Replay input for a document case: `doc <optswire...> <hex md>`.
pub fn doc_input(o: &Opts, md: &str) -> String {
    format!("doc {} {}", o.wire(), hex(md.as_bytes()))
}

pub fn parse_doc_input(input: &str) -> Option<(Opts, String)> {
    let toks: Vec<&str> = input.split(' ').collect();
    if toks.len() != 9 || toks[0] != "doc" {
        return None;
    }
    let o = Opts::from_wire(&toks[1..8])?;
    let md = String::from_utf8(crate::util::unhex(toks[8])?).ok()?;
    Some((o, md))
}
