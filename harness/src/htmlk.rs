//! Shared renderer correspondence: parse (or build) a tree with the real comrak, render it with
//! the real formatter, and ask the Lean model to render the *same* tree.
use crate::opts::Opts;
use crate::ser::{kind_seq, ser_tree};
use crate::util::hex;
use comrak::nodes::{AstNode, NodeValue};
use comrak::{format_html, parse_document, Anchorizer, Arena};
use std::panic::{catch_unwind, AssertUnwindSafe};

pub struct Rendered {
    pub html: Vec<u8>,
    pub tree_wire: String,
    pub norm_wire: String,
    pub kinds: Vec<&'static str>,
    pub valid: bool,
    pub has_raw_html: bool,
}

/// `A<n> text norm ...` for every heading of the tree (only consulted when header_ids is on).
pub fn norm_wire<'a>(root: &'a AstNode<'a>) -> String {
    let mut pairs: Vec<(Vec<u8>, Vec<u8>)> = vec![];
    for n in root.descendants() {
        if let NodeValue::Heading(_) = n.data.borrow().value {
            let mut t = Vec::new();
            comrak::html::collect_text(n, &mut t);
            if let Ok(s) = String::from_utf8(t.clone()) {
                let mut a = Anchorizer::new();
                let id = a.anchorize(s);
                if !pairs.iter().any(|p| p.0 == t) {
                    pairs.push((t, id.into_bytes()));
                }
            }
        }
    }
    let mut s = format!("A{}", pairs.len());
    for (t, m) in pairs {
        s.push(' ');
        s.push_str(&hex(&t));
        s.push(' ');
        s.push_str(&hex(&m));
    }
    s
}

pub fn render_root<'a>(root: &'a AstNode<'a>, o: &Opts) -> Result<Rendered, String> {
    let c = o.to_comrak();
    let html = catch_unwind(AssertUnwindSafe(|| {
        let mut out = Vec::new();
        format_html(root, &c, &mut out).unwrap();
        out
    }))
    .map_err(|_| "PANIC in format_html".to_string())?;
    let has_raw_html = root.descendants().any(|n| {
        matches!(n.data.borrow().value, NodeValue::HtmlBlock(_) | NodeValue::HtmlInline(_) | NodeValue::Raw(_))
    });
    Ok(Rendered {
        html,
        tree_wire: ser_tree(root),
        norm_wire: norm_wire(root),
        kinds: kind_seq(root),
        valid: root.validate().is_ok(),
        has_raw_html,
    })
}

pub fn parse_and_render(md: &str, o: &Opts) -> Result<Rendered, String> {
    let c = o.to_comrak();
    let arena = Arena::new();
    let root = catch_unwind(AssertUnwindSafe(|| parse_document(&arena, md, &c))).map_err(|_| "PANIC in parse_document".to_string())?;
    render_root(root, o)
}

pub fn html_request(o: &Opts, r: &Rendered) -> String {
    format!("html {} {} {}", o.wire(), r.norm_wire, r.tree_wire)
}

/// Replay input for a document case: `doc <optswire...> <hex md>`.
pub fn doc_input(o: &Opts, md: &str) -> String {
    format!("doc {} {}", o.wire(), hex(md.as_bytes()))
}

pub fn parse_doc_input(input: &str) -> Option<(Opts, String)> {
    let toks: Vec<&str> = input.split(' ').collect();
    if toks.len() != 9 || toks[0] != "doc" {
        return None;
    }
    let o = Opts::from_wire(&toks[1..8])?;
    let md = String::from_utf8(crate::util::unhex(toks[8])?).ok()?;
    Some((o, md))
}

/// A test subject: a Markdown document to parse, or a tree to build directly.
#[derive(Clone, Debug)]
pub enum Src {
    Doc(String),
    Tree(String),
}

impl Src {
    pub fn input(&self, o: &Opts) -> String {
        match self {
            Src::Doc(md) => doc_input(o, md),
            Src::Tree(w) => format!("tree {} {}", o.wire(), w),
        }
    }
    pub fn parse_input(input: &str) -> Option<(Opts, Src)> {
        if input.starts_with("doc ") {
            let (o, md) = parse_doc_input(input)?;
            return Some((o, Src::Doc(md)));
        }
        let toks: Vec<&str> = input.splitn(9, ' ').collect();
        if toks.len() != 9 || toks[0] != "tree" {
            return None;
        }
        let o = Opts::from_wire(&toks[1..8])?;
        Some((o, Src::Tree(toks[8].to_string())))
    }
    pub fn render(&self, o: &Opts) -> Result<Rendered, String> {
        match self {
            Src::Doc(md) => parse_and_render(md, o),
            Src::Tree(w) => {
                let arena = Arena::new();
                let root = crate::ser::build_tree(&arena, w).ok_or_else(|| "bad tree wire".to_string())?;
                render_root(root, o)
            }
        }
    }
    pub fn show(&self) -> String {
        match self {
            Src::Doc(md) => format!("doc {:?}", crate::util::show(md.as_bytes())),
            Src::Tree(w) => format!("tree {}", &w[..w.len().min(300)]),
        }
    }
    /// Runs `f` on the real tree (parsed or built).
    pub fn with_root<R>(&self, o: &Opts, f: impl for<'a> FnOnce(&'a AstNode<'a>) -> R) -> Result<R, String> {
        let c = o.to_comrak();
        let arena = Arena::new();
        let root = match self {
            Src::Doc(md) => catch_unwind(AssertUnwindSafe(|| parse_document(&arena, md, &c))).map_err(|_| "PANIC in parse_document".to_string())?,
            Src::Tree(w) => crate::ser::build_tree(&arena, w).ok_or_else(|| "bad tree wire".to_string())?,
        };
        catch_unwind(AssertUnwindSafe(|| f(root))).map_err(|_| "PANIC".to_string())
    }
}

pub fn gen_case(r: &mut crate::rng::Rng, corpus: &crate::gen::Corpus) -> (Src, &'static str) {
    if r.chance(1, 4) {
        (Src::Tree(crate::treegen::tree_wire(r)), "direct-tree")
    } else {
        let (md, s) = crate::gen::mixed_doc(r, corpus);
        (Src::Doc(md), s)
    }
}

/// Pushes the byte-equality correspondence for one (options, subject); returns the real rendering.
pub fn push_html_k<'a>(bt: &mut crate::model::Batch<'a>, rep: &mut crate::report::Report, o: &Opts, src: &Src, srcname: &str) -> Option<Rendered> {
    let input = src.input(o);
    match src.render(o) {
        Err(p) => {
            if p.contains("parse_document") {
                // a panic of the parser is C01's subject (listed there); there is no tree to render here
                rep.count("skipped-parse-panic");
            } else {
                rep.fail("render-total", "panic", input, p);
            }
            None
        }
        Ok(r) => {
            // the string entry point must return what parse + format return (all of it: it writes through a buffer)
            if let Src::Doc(md) = src {
                let c = o.to_comrak();
                if let Ok(s) = catch_unwind(AssertUnwindSafe(|| comrak::markdown_to_html(md, &c))) {
                    rep.s_evals += 1;
                    if s.as_bytes() != r.html.as_slice() {
                        rep.fail("string-api-differs", "markdown_to_html", input.clone(), crate::util::diff_window(&r.html, s.as_bytes()).replace("real", "parse+format_html").replace("model", "markdown_to_html"));
                    }
                }
            }
            rep.count(&format!("gen-{}", srcname));
            rep.add("nodes", r.kinds.len() as u64);
            if r.kinds.len() > 1 {
                rep.nontrivial(&(r.kinds.clone(), o.bits.clone()));
            }
            for k in &r.kinds {
                rep.count(&format!("kind-{}", k));
            }
            let req = html_request(o, &r);
            let h1 = r.html.clone();
            bt.push(req, move |resp, rep| {
                rep.k_evals += 1;
                if resp != hex(&h1) {
                    let m = crate::util::unhex(resp).unwrap_or_default();
                    rep.disagree("html-bytes", input, crate::util::diff_window(&h1, &m));
                }
            });
            Some(r)
        }
    }
}

/// Deletes every ` <attr>="..."` occurrence (attribute values never contain a raw quote).
pub fn strip_attr(html: &[u8], attr: &str) -> Vec<u8> {
    let pat = format!(" {}=\"", attr).into_bytes();
    let mut out = Vec::with_capacity(html.len());
    let mut i = 0;
    while i < html.len() {
        if html[i..].starts_with(&pat) {
            let mut j = i + pat.len();
            while j < html.len() && html[j] != b'"' {
                j += 1;
            }
            i = (j + 1).min(html.len());
        } else {
            out.push(html[i]);
            i += 1;
        }
    }
    out
}
