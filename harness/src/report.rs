//! Result of one `cvh` run: correspondence (K) disagreements and oracle (S) failures are
//! kept as two separate lists; the runner (`/verif/check`) decides the verdict.
use crate::util::{jstr, Obj};
use std::collections::{BTreeMap, HashSet};
use std::hash::{Hash, Hasher};

#[derive(Clone, Debug)]
pub struct Case {
    /// correspondence mode or oracle clause, e.g. "escape-bytes" / "no-active-char"
    pub kind: String,
    /// narrow syntactic class of the (shrunk) input, used to match known findings
    pub sig: String,
    /// replayable input: the request understood by `cvh replay`
    pub input: String,
    pub detail: String,
}

impl Case {
    pub fn json(&self) -> String {
        Obj::new()
            .s("kind", &self.kind)
            .s("sig", &self.sig)
            .s("input", &self.input)
            .s("detail", &self.detail)
            .build()
    }
}

pub struct Report {
    pub prop: String,
    pub k_evals: u64,
    pub k_disagree_n: u64,
    pub k_disagree: Vec<Case>,
    pub s_evals: u64,
    pub s_fail_n: u64,
    pub s_fail: Vec<Case>,
    pub exhaustive: bool,
    pub exhaustive_what: Vec<String>,
    distinct: HashSet<u64>,
    pub samples: Vec<String>,
    pub dist: BTreeMap<String, u64>,
    pub notes: Vec<String>,
    pub rule: String,
}

const KEEP: usize = 40;

impl Report {
    pub fn new(prop: &str) -> Report {
        Report {
            prop: prop.to_string(),
            k_evals: 0,
            k_disagree_n: 0,
            k_disagree: vec![],
            s_evals: 0,
            s_fail_n: 0,
            s_fail: vec![],
            exhaustive: false,
            exhaustive_what: vec![],
            distinct: HashSet::new(),
            samples: vec![],
            dist: BTreeMap::new(),
            notes: vec![],
            rule: String::new(),
        }
    }
    pub fn disagree(&mut self, kind: &str, input: String, detail: String) {
        self.k_disagree_n += 1;
        if self.k_disagree.len() < KEEP {
            self.k_disagree.push(Case { kind: kind.into(), sig: String::new(), input, detail });
        }
    }
    pub fn fail(&mut self, kind: &str, sig: &str, input: String, detail: String) {
        self.s_fail_n += 1;
        // keep at least one representative per (kind, sig)
        let seen = self.s_fail.iter().filter(|c| c.kind == kind && c.sig == sig).count();
        if seen < 3 && self.s_fail.len() < 400 {
            self.s_fail.push(Case { kind: kind.into(), sig: sig.into(), input, detail });
        }
    }
    pub fn count(&mut self, key: &str) {
        *self.dist.entry(key.to_string()).or_insert(0) += 1;
    }
    pub fn add(&mut self, key: &str, n: u64) {
        *self.dist.entry(key.to_string()).or_insert(0) += n;
    }
    /// Records a distinct non-trivial case (by hash of its class descriptor).
    pub fn nontrivial<T: Hash>(&mut self, class: &T) {
        let mut h = std::collections::hash_map::DefaultHasher::new();
        class.hash(&mut h);
        self.distinct.insert(h.finish());
    }
    pub fn sample(&mut self, s: String) {
        if self.samples.len() < 12 {
            self.samples.push(s);
        }
    }
    pub fn json(&self) -> String {
        let dist: Vec<String> = self.dist.iter().map(|(k, v)| format!("{}:{}", jstr(k), v)).collect();
        Obj::new()
            .s("property", &self.prop)
            .n("k_evaluations", self.k_evals)
            .n("k_disagreements", self.k_disagree_n)
            .arr("k_disagree", &self.k_disagree.iter().map(|c| c.json()).collect::<Vec<_>>())
            .n("s_evaluations", self.s_evals)
            .n("s_failures", self.s_fail_n)
            .arr("s_fail", &self.s_fail.iter().map(|c| c.json()).collect::<Vec<_>>())
            .b("exhaustive", self.exhaustive)
            .strs("exhaustive_what", &self.exhaustive_what)
            .n("distinct_nontrivial", self.distinct.len() as u64)
            .s("rule", &self.rule)
            .strs("samples", &self.samples)
            .raw("distribution", format!("{{{}}}", dist.join(",")))
            .strs("notes", &self.notes)
            .build()
    }
}
