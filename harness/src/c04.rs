//! C04: the parsed tree is always structurally valid.
//! K: `can_contain_type` on all 41 x 41 kind pairs vs the Lean `canContain`; real `validate()`
//!    vs Lean `validateT` on every tree; random operation sequences on real `arena_tree::Node`s vs the
//!    Lean link-array model (`ArenaTree.lean`), complete link dump compared after every operation.
//! S: Lean `Shape` (containment on every edge + placement + table geometry + heading level) on
//!    real parsed trees; parent/child/sibling link consistency walked through the public accessors.
use crate::gen::{mixed_doc, Corpus};
use crate::model::{Batch, Model};
use crate::opts::Opts;
use crate::report::Report;
use crate::rng::Rng;
use crate::ser::{build_tree, kind_name, kind_seq, ser_tree};
use crate::util::{hex, show};
use crate::Cfg;
use comrak::nodes::{can_contain_type, AstNode};
use comrak::{parse_document, Arena};
use std::panic::{catch_unwind, AssertUnwindSafe};

/// One wire node per kind with default payloads (the function inspects only the variant).
const KIND_WIRE: &[(&str, &str)] = &[
    ("document", ""), ("frontmatter", "-"), ("block_quote", ""), ("list", "0 0 2 1 0 45 0 0"), ("item", "0 0 2 1 0 45 0 0"),
    ("description_list", ""), ("description_item", "0 2 0"), ("description_term", ""), ("description_details", ""),
    ("code_block", "1 96 3 0 - -"), ("html_block", "6 -"), ("paragraph", ""), ("heading", "1 0"), ("thematic_break", ""),
    ("footnote_definition", "61 0"), ("table", "1 1 1 n"), ("table_row", "1"), ("table_cell", ""), ("text", "61"),
    ("taskitem", "0 -"), ("softbreak", ""), ("linebreak", ""), ("code", "1 61"), ("html_inline", "61"), ("raw", "61"),
    ("emph", ""), ("strong", ""), ("strikethrough", ""), ("superscript", ""), ("link", "61 -"), ("image", "61 -"),
    ("footnote_reference", "61 1 1"), ("math", "1 0 61"), ("multiline_block_quote", "3 0"), ("escaped", ""),
    ("wikilink", "61"), ("underline", ""), ("subscript", ""), ("spoiler", ""), ("escaped_tag", "7e"), ("alert", "0 0 - 0 0 0"),
];

fn one(kind: &str, f: &str) -> String {
    format!("N {} 0 0 0 0{}{} E", kind, if f.is_empty() { "" } else { " " }, f)
}

fn links_ok<'a>(root: &'a AstNode<'a>) -> Result<(), String> {
    for n in root.descendants() {
        let kids: Vec<_> = n.children().collect();
        match (n.first_child(), n.last_child(), kids.first(), kids.last()) {
            (None, None, None, None) => {}
            (Some(f), Some(l), Some(kf), Some(kl)) => {
                if !f.same_node(kf) || !l.same_node(kl) {
                    return Err("first/last child do not match the child list".into());
                }
                if f.previous_sibling().is_some() || l.next_sibling().is_some() {
                    return Err("first child has a previous sibling or last child a next sibling".into());
                }
            }
            _ => return Err("first_child/last_child inconsistent".into()),
        }
        for (i, k) in kids.iter().enumerate() {
            match k.parent() {
                Some(p) if p.same_node(n) => {}
                _ => return Err(format!("child {} of a {} node has a different parent", i, kind_name(&n.data.borrow().value))),
            }
            if i + 1 < kids.len() {
                match (k.next_sibling(), kids[i + 1].previous_sibling()) {
                    (Some(nx), Some(pv)) if nx.same_node(kids[i + 1]) && pv.same_node(k) => {}
                    _ => return Err("next/previous sibling links are not mutually consistent".into()),
                }
            }
        }
        let rev: Vec<_> = n.reverse_children().collect();
        if rev.len() != kids.len() {
            return Err("forward and reverse child iteration disagree".into());
        }
    }
    if root.parent().is_some() {
        return Err("root has a parent".into());
    }
    Ok(())
}

/// Narrow class of a shape failure: first offending (parent kind, child kind) edge by the real validator.
fn first_bad_edge<'a>(root: &'a AstNode<'a>) -> String {
    for n in root.descendants() {
        if let Some(p) = n.parent() {
            if !can_contain_type(p, &n.data.borrow().value) {
                return format!("{}>{}", kind_name(&p.data.borrow().value), kind_name(&n.data.borrow().value));
            }
        }
    }
    "no-containment-failure".into()
}

/// Table geometry, list children and heading level checked directly on the real tree (the same
/// clauses as the Lean `localOk`), used for trees too large to ship to the driver.
fn shape_rust<'a>(root: &'a AstNode<'a>) -> Result<(), String> {
    use comrak::nodes::NodeValue as V;
    for n in root.descendants() {
        match &n.data.borrow().value {
            V::Table(t) => {
                if t.alignments.len() != t.num_columns {
                    return Err(format!("table: {} alignments but num_columns = {}", t.alignments.len(), t.num_columns));
                }
                let mut first = true;
                let mut rows = 0usize;
                for (ri, row) in n.children().enumerate() {
                    rows += 1;
                    match &row.data.borrow().value {
                        V::TableRow(h) => {
                            if *h != first {
                                return Err(format!("table row {}: header flag {} (header row must be first and unique)", ri, h));
                            }
                        }
                        _ => return Err("table child is not a row".into()),
                    }
                    first = false;
                    let cells = row.children().count();
                    if cells != t.num_columns {
                        return Err(format!("table row {} has {} cells but the table has {} columns", ri, cells, t.num_columns));
                    }
                    if row.children().any(|c| !matches!(c.data.borrow().value, V::TableCell)) {
                        return Err("row child is not a cell".into());
                    }
                }
                if rows == 0 {
                    return Err("table without rows".into());
                }
            }
            V::Heading(h) => {
                if h.level < 1 || h.level > 6 {
                    return Err(format!("heading level {}", h.level));
                }
            }
            V::List(_) => {
                if n.children().any(|c| !matches!(c.data.borrow().value, V::Item(_) | V::TaskItem(_))) {
                    return Err("list child is not an item".into());
                }
            }
            _ => {}
        }
    }
    Ok(())
}

/// Curated boundary shapes: tables whose auto-completed cells cross MAX_AUTOCOMPLETED_CELLS (500000).
fn boundary_tables(rep: &mut Report) {
    for (cols, cells_per_row) in [(1000usize, 1usize), (700, 2), (2000, 1), (65535, 1)] {
        let per_row = cols - cells_per_row;
        let rows = 500_000 / per_row.max(1) + 6;
        let mut md = String::new();
        md.push_str(&"|a".repeat(cols));
        md.push_str("|\n");
        md.push_str(&"|-".repeat(cols));
        md.push_str("|\n");
        for _ in 0..rows.min(2000) {
            md.push_str(&"|x".repeat(cells_per_row));
            md.push_str("|\n");
        }
        let o = Opts::default().with("table", true);
        let c = o.to_comrak();
        let arena = Arena::new();
        let input = format!("boundary-table {} {}", cols, cells_per_row);
        match catch_unwind(AssertUnwindSafe(|| parse_document(&arena, &md, &c))) {
            Err(_) => rep.fail("parse-total", "panic", input, "parser panicked".into()),
            Ok(root) => {
                rep.s_evals += 1;
                rep.count("boundary-table");
                rep.add("boundary-table-nodes", root.descendants().count() as u64);
                if let Err(e) = shape_rust(root) {
                    rep.fail("shape", "table-geometry-at-autocomplete-limit", input.clone(), e);
                }
                if root.validate().is_err() {
                    rep.fail("validator-accepts", "boundary-table", input.clone(), "validate() rejects".into());
                }
                if let Err(e) = links_ok(root) {
                    rep.fail("links-consistent", "links", input, e);
                }
            }
        }
    }
}

pub fn push_doc<'a>(bt: &mut Batch<'a>, rep: &mut Report, o: Opts, md: String, name: &'static str) {
    let input = crate::htmlk::doc_input(&o, &md);
    let c = o.to_comrak();
    let arena = Arena::new();
    let root = match catch_unwind(AssertUnwindSafe(|| parse_document(&arena, &md, &c))) {
        Ok(r) => r,
        Err(_) => {
            rep.count("skipped-parse-panic");
            return;
        }
    };
    rep.count(&format!("gen-{}", name));
    let kinds = kind_seq(root);
    if kinds.len() > 1 {
        rep.nontrivial(&(kinds.clone(), o.bits.clone()));
    }
    for k in &kinds {
        rep.count(&format!("kind-{}", k));
    }
    rep.s_evals += 1;
    if let Err(e) = links_ok(root) {
        rep.fail("links-consistent", "links", input.clone(), e);
    }
    if let Err(e) = shape_rust(root) {
        rep.fail("shape", "geometry-rust-side", input.clone(), e);
    }
    let valid = root.validate().is_ok();
    let edge = first_bad_edge(root);
    let wire = ser_tree(root);
    let (i1, i2) = (input.clone(), input);
    bt.push(format!("shape {}", wire), move |resp, rep| {
        let mut it = resp.split(' ');
        let shape = it.next() == Some("1");
        let mvalid = it.next() == Some("1");
        rep.k_evals += 1;
        if mvalid != valid {
            rep.disagree("validate-agreement", i1, format!("real validate() = {} but Lean validateT = {}", valid, mvalid));
        }
        rep.s_evals += 1;
        if !valid {
            rep.fail("validator-accepts", &edge, i2.clone(), format!("the library's validate() rejects the parsed tree (edge {})", edge));
        } else if !shape {
            rep.fail("shape", "placement-or-geometry", i2, "the parsed tree passes validate() but not Shape (placement, table geometry or heading level)".into());
        }
    });
}

pub fn run(cfg: &Cfg, rep: &mut Report) {
    let m = Model::from_env();
    let mut rng = Rng::new(cfg.seed ^ 0xC04);
    let corpus = Corpus::load();
    rep.rule = "exhaustive: can_contain_type on all 41 x 41 kind pairs; arena stage: random sequences of append/prepend/insert_after/insert_before/detach on 2..16 real arena_tree nodes, operands random subject to the operand conditions of the Lean theorems (new node is not an ancestor-or-self of the target, insert_* next to a node that has a parent); documents (grammar/palette/bytes/corpus) x random extension/parse option vectors with the pairs escaped_char_spans+table and subscript-without-strikethrough+table over-weighted; distinct_nontrivial counts distinct (kind sequence, option bits) classes".into();
    // 0. arena_tree operation sequences vs the link-array model. Everything below builds trees with these
    //    mutators: if they are broken the parsed-tree stages are meaningless (and may not terminate), so stop here.
    arena_stage(cfg, rep, &m);
    if rep.k_disagree_n > 0 || rep.s_fail_n > 0 {
        rep.notes.push("arena_tree stage failed: containment-table and parsed-tree stages skipped".into());
        return;
    }
    // 1. containment table, exhaustive
    let mut bt = Batch::new();
    for (pk, pf) in KIND_WIRE {
        for (ck, cf) in KIND_WIRE {
            let arena = Arena::new();
            let p = build_tree(&arena, &one(pk, pf)).expect("parent wire");
            let c = build_tree(&arena, &one(ck, cf)).expect("child wire");
            let real = can_contain_type(p, &c.data.borrow().value);
            let (pk, ck) = (pk.to_string(), ck.to_string());
            bt.push(format!("cancontain {} {}", pk, ck), move |resp, rep| {
                rep.k_evals += 1;
                if (resp == "1") != real {
                    rep.disagree("containment-table", format!("cancontain {} {}", pk, ck), format!("real={} model={}", real, resp));
                }
            });
        }
    }
    rep.exhaustive = true;
    rep.exhaustive_what.push(format!("can_contain_type on all {} x {} (parent kind, child kind) pairs", KIND_WIRE.len(), KIND_WIRE.len()));
    bt.run(&m, rep);
    boundary_tables(rep);
    // 2. parsed trees
    let n = if cfg.tier_thorough { 200_000 } else if cfg.full { 50_000 } else { 30_000 };
    let mut done = 0;
    while done < n {
        let mut bt = Batch::new();
        for _ in 0..4000.min(n - done) {
            let (md, name) = mixed_doc(&mut rng, &corpus);
            let mut o = Opts::random(&mut rng);
            match rng.below(6) {
                0 => {
                    o.set("escaped_char_spans", true).set("table", true);
                }
                1 => {
                    o.set("subscript", true).set("strikethrough", false).set("table", true);
                }
                2 => {
                    o.set("table", true).set("spoiler", true).set("footnotes", true);
                }
                _ => {}
            }
            if done < 3 {
                rep.sample(format!("doc {:?} opts [{}]", show(md.as_bytes()), o.describe()));
            }
            push_doc(&mut bt, rep, o, md, name);
            done += 1;
        }
        bt.run(&m, rep);
    }
}

pub fn replay(kind: &str, input: &str) -> Result<Option<String>, String> {
    let m = Model::from_env();
    let mut rep = Report::new("C04");
    let mut bt = Batch::new();
    if input.starts_with("boundary-table ") {
        boundary_tables(&mut rep);
        for c in rep.s_fail.iter() {
            if kind.is_empty() || c.kind == kind {
                return Ok(Some(format!("{}: {}", c.kind, c.detail)));
            }
        }
        return Ok(None);
    }
    if input.starts_with("arena ") {
        arena_push(&mut bt, &mut rep, arena_parse(input).ok_or("bad arena replay input")?);
        bt.run(&m, &mut rep);
        for c in rep.s_fail.iter().chain(rep.k_disagree.iter()) {
            if kind.is_empty() || c.kind == kind {
                return Ok(Some(format!("{}: {}", c.kind, c.detail)));
            }
        }
        return Ok(None);
    }
    if input.starts_with("cancontain ") {
        return Err("containment-table entries are re-checked exhaustively by every run".into());
    }
    let (o, md) = crate::htmlk::parse_doc_input(input).ok_or("bad replay input")?;
    push_doc(&mut bt, &mut rep, o, md, "replay");
    bt.run(&m, &mut rep);
    let _ = hex(&[]);
    for c in rep.s_fail.iter().chain(rep.k_disagree.iter()) {
        if kind.is_empty() || c.kind == kind {
            return Ok(Some(format!("{}: {}", c.kind, c.detail)));
        }
    }
    Ok(None)
}

// ---------------------------------------------------------------------------------------------
// Stage "arena": real `comrak::arena_tree::Node` operation sequences vs the Lean link-array model.

type ANode<'a> = comrak::arena_tree::Node<'a, usize>;

/// One operation: (name as in the driver protocol, first operand, second operand).
/// `a p c` = p.append(c), `p p c` = p.prepend(c), `ia x c` = x.insert_after(c),
/// `ib x c` = x.insert_before(c), `d x` = x.detach().
type AOp = (&'static str, usize, usize);

struct ACase {
    n: usize,
    ops: Vec<AOp>,
}

fn arena_request(c: &ACase) -> String {
    let mut s = format!("arena {}", c.n);
    for (op, x, y) in &c.ops {
        if *op == "d" {
            s.push_str(&format!(" d {}", x));
        } else {
            s.push_str(&format!(" {} {} {}", op, x, y));
        }
    }
    s
}

fn arena_parse(input: &str) -> Option<ACase> {
    let mut it = input.split(' ');
    if it.next()? != "arena" {
        return None;
    }
    let n: usize = it.next()?.parse().ok()?;
    let mut ops = vec![];
    while let Some(op) = it.next() {
        let x: usize = it.next()?.parse().ok()?;
        let op: &'static str = match op {
            "a" => "a",
            "p" => "p",
            "ia" => "ia",
            "ib" => "ib",
            "d" => "d",
            _ => return None,
        };
        let y: usize = if op == "d" { 0 } else { it.next()?.parse().ok()? };
        if x >= n || y >= n {
            return None;
        }
        ops.push((op, x, y));
    }
    Some(ACase { n, ops })
}

fn arena_dump<'a>(nodes: &[&'a ANode<'a>]) -> String {
    let o = |x: Option<&'a ANode<'a>>| match x {
        Some(n) => n.data.to_string(),
        None => "-".to_string(),
    };
    nodes
        .iter()
        .map(|n| format!("{},{},{},{},{}", o(n.parent()), o(n.previous_sibling()), o(n.next_sibling()), o(n.first_child()), o(n.last_child())))
        .collect::<Vec<_>>()
        .join("/")
}

fn arena_apply<'a>(nodes: &[&'a ANode<'a>], op: &AOp) {
    let (x, y) = (nodes[op.1], nodes[op.2]);
    match op.0 {
        "a" => x.append(y),
        "p" => x.prepend(y),
        "ia" => x.insert_after(y),
        "ib" => x.insert_before(y),
        _ => x.detach(),
    }
}

/// Is `c` the node `p` or one of its ancestors?  (`p.append(c)` would then close a parent cycle.)
fn anc_or_self<'a>(p: &'a ANode<'a>, c: &'a ANode<'a>) -> bool {
    p.ancestors().any(|q| q.same_node(c))
}

/// Independent oracle on a link dump (S): the five links of every node are mutually consistent.
fn arena_links_ok(dump: &str) -> Result<(), String> {
    let f = |s: &str| if s == "-" { None } else { s.parse::<usize>().ok() };
    let rows: Vec<[Option<usize>; 5]> = dump
        .split('/')
        .map(|r| {
            let v: Vec<_> = r.split(',').map(f).collect();
            [v[0], v[1], v[2], v[3], v[4]]
        })
        .collect();
    let n = rows.len();
    let (par, prev, next, first, last) = (0, 1, 2, 3, 4);
    for p in 0..n {
        let mut kids = vec![];
        let mut cur = rows[p][first];
        while let Some(c) = cur {
            if c >= n || kids.len() > n {
                return Err(format!("child chain of {} does not end", p));
            }
            kids.push(c);
            cur = rows[c][next];
        }
        if rows[p][last] != kids.last().copied() {
            return Err(format!("last_child of {} is not the end of its child chain", p));
        }
        for (i, &c) in kids.iter().enumerate() {
            if rows[c][par] != Some(p) {
                return Err(format!("child {} of {} has parent {:?}", c, p, rows[c][par]));
            }
            let want = if i == 0 { None } else { Some(kids[i - 1]) };
            if rows[c][prev] != want {
                return Err(format!("previous_sibling of {} is {:?}, expected {:?}", c, rows[c][prev], want));
            }
        }
        for x in 0..n {
            if rows[x][par] == Some(p) && !kids.contains(&x) {
                return Err(format!("{} has parent {} but is not in its child chain", x, p));
            }
        }
    }
    for x in 0..n {
        if rows[x][par].is_none() && (rows[x][prev].is_some() || rows[x][next].is_some()) {
            return Err(format!("parentless node {} has a sibling link", x));
        }
    }
    Ok(())
}

/// Generates one sequence while executing it on real nodes (the operand conditions depend on the state).
fn arena_gen(rng: &mut Rng, rep: &mut Report) -> ACase {
    let n = if rng.chance(1, 8) { rng.range(11, 16) } else { rng.range(2, 10) };
    let len = if rng.chance(1, 10) { rng.range(31, 60) } else { rng.range(1, 30) };
    let arena: Arena<ANode> = Arena::new();
    let nodes: Vec<&ANode> = (0..n).map(|i| &*arena.alloc(ANode::new(i))).collect();
    let mut ops: Vec<AOp> = vec![];
    let r = catch_unwind(AssertUnwindSafe(|| {
        let mut ops: Vec<AOp> = vec![];
        let mut rng2 = rng.clone();
        for _ in 0..len {
            let mut chosen: Option<AOp> = None;
            for _try in 0..8 {
                let (mut x, c) = (rng2.below(n), rng2.below(n));
                let kind = rng2.below(10);
                if kind >= 6 {
                    // insert_*: prefer a reference node that has a parent
                    let with_parent: Vec<usize> = (0..n).filter(|&i| nodes[i].parent().is_some()).collect();
                    if !with_parent.is_empty() {
                        x = *rng2.pick(&with_parent);
                    }
                }
                let cand: AOp = match kind {
                    0 => ("d", x, 0),
                    1 | 2 | 3 => ("a", x, c),
                    4 | 5 => ("p", x, c),
                    6 | 7 => ("ia", x, c),
                    _ => ("ib", x, c),
                };
                let ok = match cand.0 {
                    "d" => true,
                    "a" | "p" => !anc_or_self(nodes[x], nodes[c]),
                    _ => match nodes[x].parent() {
                        Some(par) => x != c && !anc_or_self(par, nodes[c]),
                        None => false,
                    },
                };
                if ok {
                    chosen = Some(cand);
                    break;
                }
            }
            let op = chosen.unwrap_or(("d", rng2.below(n), 0));
            arena_apply(&nodes, &op);
            ops.push(op);
        }
        (ops, rng2)
    }));
    match r {
        Ok((o, rng2)) => {
            ops = o;
            *rng = rng2;
        }
        Err(_) => {
            rng.next();
            rep.fail("arena-total", "panic-while-generating", format!("arena {}", n), "an arena_tree operation panicked while generating a sequence".into());
        }
    }
    ACase { n, ops }
}

/// Executes the case on fresh real nodes, records the dump after every operation, pushes the model request.
fn arena_push<'a>(bt: &mut Batch<'a>, rep: &mut Report, case: ACase) -> Option<String> {
    let req = arena_request(&case);
    let arena: Arena<ANode> = Arena::new();
    let nodes: Vec<&ANode> = (0..case.n).map(|i| &*arena.alloc(ANode::new(i))).collect();
    let mut dumps: Vec<String> = vec![];
    for (i, op) in case.ops.iter().enumerate() {
        if catch_unwind(AssertUnwindSafe(|| arena_apply(&nodes, op))).is_err() {
            rep.fail("arena-total", op.0, req.clone(), format!("operation {} ({} {} {}) panicked", i, op.0, op.1, op.2));
            return None;
        }
        let d = arena_dump(&nodes);
        rep.s_evals += 1;
        if let Err(e) = arena_links_ok(&d) {
            rep.fail("arena-links-consistent", op.0, req.clone(), format!("after operation {} ({} {} {}): {}; links {}", i, op.0, op.1, op.2, e, d));
        }
        dumps.push(d);
        rep.count(&format!("arena-op-{}", match op.0 { "a" => "append", "p" => "prepend", "ia" => "insert_after", "ib" => "insert_before", _ => "detach" }));
    }
    rep.count("arena-sequences");
    if let Some(last) = dumps.last() {
        rep.nontrivial(&("arena-final-shape", last.clone()));
    }
    let ops = case.ops.clone();
    let input = req.clone();
    let last = dumps.last().cloned();
    bt.push(req, move |resp, rep| {
        let model: Vec<&str> = if resp.is_empty() { vec![] } else { resp.split(';').collect() };
        rep.k_evals += dumps.len() as u64;
        if model.len() != dumps.len() {
            rep.disagree("arena-links", input, format!("model returned {} dumps for {} operations", model.len(), dumps.len()));
            return;
        }
        for (i, (r, m)) in dumps.iter().zip(model.iter()).enumerate() {
            if r != m {
                let op = ops[i];
                rep.disagree("arena-links", input, format!("after operation {} ({} {} {}): real links {} but model links {}", i, op.0, op.1, op.2, r, m));
                return;
            }
        }
    });
    last
}

fn arena_stage(cfg: &Cfg, rep: &mut Report, m: &Model) {
    let mut rng = Rng::new(cfg.seed ^ 0xA2E4A);
    let n = if cfg.tier_thorough { 200_000 } else if cfg.full { 40_000 } else { 8_000 };
    let mut shapes: std::collections::HashSet<String> = std::collections::HashSet::new();
    let mut done = 0;
    // curated: the `it_works` test of arena_tree.rs (same sequence as `itWorks` in Props/C04Arena.lean)
    let mut bt = Batch::new();
    let curated = "arena 10 a 0 1 a 0 2 p 0 3 a 4 0 ib 0 5 ib 0 6 ia 0 7 ia 0 8 a 4 9 d 7";
    arena_push(&mut bt, rep, arena_parse(curated).expect("curated arena case"));
    bt.run(m, rep);
    while done < n {
        let mut bt = Batch::new();
        for _ in 0..4000.min(n - done) {
            let case = arena_gen(&mut rng, rep);
            if done < 2 {
                rep.sample(arena_request(&case));
            }
            if let Some(last) = arena_push(&mut bt, rep, case) {
                shapes.insert(last);
            }
            done += 1;
        }
        bt.run(m, rep);
    }
    rep.add("arena-distinct-final-shapes", shapes.len() as u64);
}
