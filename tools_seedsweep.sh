#!/bin/bash
# Development helper: run every check's quick tier for several seeds and report any non-zero exit.
# usage: tools_seedsweep.sh <first seed> <last seed> [ids...]
A=$1; B=$2; shift 2
IDS=${@:-C01 C02 C03 C04 C05 C06 C07 C08 C09 C10 C11 C12 C13 C14 C15 C16 C17 C18 C19 C20}
cd "$(dirname "$0")"
export VERIF_EVIDENCE_DIR=/verif/work/sweep-evidence VERIF_REPLAYS_DIR=/verif/work/sweep-replays
mkdir -p $VERIF_EVIDENCE_DIR $VERIF_REPLAYS_DIR
for s in $(seq $A $B); do
  for p in $IDS; do
    VERIF_SEED=$s ./check $p > work/sweep.out 2> work/sweep.err; rc=$?
    if [ $rc -ne 0 ]; then echo "ALARM seed=$s $p rc=$rc"; grep ^VIOLATION work/sweep.out | head -3; grep '^\[broken\]' work/sweep.err | cut -c1-300 | head -2; fi
  done
  echo "seed $s done"
done
