"""Shared fragments for checks/*.py."""

TRUSTED_BASE = ['Lean 4.33.0 kernel (thorough tier: leanchecker re-check of the property modules)',
 'axioms: at most propext, Classical.choice, Quot.sound (audited per theorem on every run); no sorry, no native_decide, no added axioms',
 'hand-written Lean model tied to /repo by the correspondence harness /verif/harness (cvh), rebuilt against the working tree on every run',
 "Rust compiler, std, and the Lean driver's line protocol (/verif/lean/Main.lean)"]

HTML_TB = ["recursive renderT/renderF stand for comrak's explicit work-stack traversal (exercised by the correspondence on deep and wide trees, not proved)",
 "anchor normalisation (Unicode lower-casing / category filter) is a parameter of the model; the harness supplies the real Anchorizer's value per "
 'heading text']
