#!/bin/bash
# Development helper: confirm a seeded change (compiles, full suite passes, demo fails with it and
# passes without it) in a scratch worktree, then store it under /verif/seeded/<name>/.
# usage: tools_seedverify.sh <seed dir with patch.diff demo.rs meta.json> <name>
set -u
SD=$(readlink -f "$1"); NAME=$2
W=${SEEDVERIFY_W:-/tmp/seedverify/repo}
if [ ! -d $W ]; then mkdir -p $(dirname $W); git -C /repo worktree add -q --detach $W HEAD || exit 2; fi
git -C $W checkout -q --detach $(git -C /repo rev-parse HEAD); git -C $W checkout -q -- .; rm -f $W/tests/seed_demo.rs
mkdir -p $W/tests; cp $SD/demo.rs $W/tests/seed_demo.rs
cd $W
export CARGO_NET_OFFLINE=true
A=$(cargo test --offline --test seed_demo 2>&1 | grep -E "^test result" | head -1)
if ! git apply $SD/patch.diff; then echo "PATCH-DOES-NOT-APPLY"; exit 2; fi
BOUT=$(cargo test --offline --test seed_demo 2>&1); BRC=$?
B=$(echo "$BOUT" | grep -E "^test result" | head -1)
# a demonstration that aborts the test process (stack overflow, abort) prints no result line
if [ -z "$B" ] && [ $BRC -ne 0 ] && echo "$BOUT" | grep -qE "SIGABRT|SIGSEGV|overflowed its stack|signal: "; then B="FAILED (test process died: $(echo "$BOUT" | grep -E "SIGABRT|SIGSEGV|overflowed its stack|signal: " | head -1 | cut -c1-160))"; fi
rm -f tests/seed_demo.rs
C=$(cargo test --workspace --no-fail-fast --offline 2>&1 | grep -E "^test result" | tr '\n' ';')
git checkout -q -- .
echo "demo-without: $A"; echo "demo-with:    $B"; echo "suite-with:   $C"
case "$A" in *"ok."*) ;; *) echo "REJECT demo does not pass without the change"; exit 1;; esac
case "$B" in *"FAILED"*) ;; *) echo "REJECT demo does not fail with the change"; exit 1;; esac
case "$C" in *"FAILED"*|"") echo "REJECT suite fails with the change"; exit 1;; esac
mkdir -p /verif/seeded/$NAME
cp $SD/patch.diff $SD/demo.rs /verif/seeded/$NAME/
python3 - "$SD/meta.json" "/verif/seeded/$NAME/meta.json" "$A" "$B" "$C" <<'PY'
import json,sys
try: m=json.load(open(sys.argv[1]))
except Exception: m={}
m['confirmed_by_lead']={'demo_without_change':sys.argv[3],'demo_with_change':sys.argv[4],'full_suite_with_change':sys.argv[5],
  'how':'scratch worktree of /repo HEAD; cargo test --offline --test seed_demo before/after git apply patch.diff; cargo test --workspace --no-fail-fast --offline with the patch'}
json.dump(m,open(sys.argv[2],'w'),indent=1)
PY
echo "ACCEPTED -> /verif/seeded/$NAME"
