"""Check configuration for C15 (loaded by checks_cfg.py)."""
from checks_common import HTML_TB  # noqa: F401

ID = "C15"

PROP = {'lean_props': ['Comrak.Props.C15'],
 'lean_audit': ['Comrak.Audit.C15'],
 'required_theorems': ['anchorLoop_some',
                       'anchorize_fresh',
                       'anchors_pairwise_distinct',
                       'anchorizeMemo_refines',
                       'anchorizeMemoAll_eq_spec',
                       'anchors_pairwise_distinct_memo',
                       'anchorize_memo_linear',
                       'anchorize_old_quadratic',
                       'ix_is_1_to_n_in_first_ref_order',
                       'clean_document_intact',
                       'ref_nums_1_to_total_counterexample',
                       'backrefs_match_refs_counterexample',
                       'ref_ids_distinct_counterexample',
                       'unreferenced_omitted_counterexample',
                       'defs_rendered_once_counterexample',
                       'refs_point_to_rendered_def_after_fix',
                       'refs_point_to_rendered_def_partial',
                       'defs_rendered_once_partial',
                       'ref_nums_1_to_total_partial',
                       'unreferenced_omitted_partial',
                       'noRefInDropped_needed_for_ref_nums',
                       'noNestedDefs_needed'],
 'strength': 'anchors: full (every normalisation table, every issued set, every list of heading texts); the anchor model tied to the real '
             'Anchorizer is now the memoised code (HashMap<String, usize>, repaired in /repo commit 70a0ef9), proved to refine the set-based '
             'specification (anchorizeMemo_refines, anchorizeMemoAll_eq_spec) with at most 2n probes for n headings (anchorize_memo_linear) '
             'where the set-based loop needs n(n+1)/2 on n equal headings (anchorize_old_quadratic). Footnotes: numbering in '
             'first-reference order proved for every tree and label normaliser; "references point to a rendered definition" proved for every '
             'tree with leaf references (refs_point_to_rendered_def_partial: no other hypothesis, in particular no idempotence of the '
             'normaliser); "rendered once", "ref_nums 1..total" and "unreferenced omitted" proved for every tree and normaliser under explicit '
             'decidable hypotheses that exclude exactly the listed defect classes (noNestedDefs; noRefInDropped = no resolvable reference inside '
             'a definition that is dropped; labelsCompat = keep-equal labels are fold-equal, a condition on the normaliser parameter), each '
             'hypothesis shown necessary by a Lean counterexample; inside the defect classes the real pass violates the clauses (known findings). '
             'The HTML-level clause "back-links match references" and id uniqueness (X / X-2 names, %XX names) are not proved in general '
             '(counterexamples + output oracles)',
 'trusted_base': HTML_TB + ['label normalisation (strings::normalize_label, Unicode case folding) is a parameter of processFootnotes; the harness '
                            'supplies (label, fold, keep) per label from its own ASCII + char::to_lowercase rules and the node-for-node comparison '
                            'of the model with the real pass fails if they differ',
                            'the tree before/after process_footnotes is observed through the add-only hook parser::verif_footnote_hooks '
                            '(two observer calls in finalize_document under cfg(comrak_verif))'],
 'assumptions': ['reference nodes are leaves (leafRefsT), true of every tree the inline parser builds',
                 'raw HTML is not passed through (unsafe_ off) when the id/href graph of the output is extracted',
                 'plugins (heading adapter) and URL rewriters are outside the model']}

TEXT = {'text': 'Proof + correspondence. Anchors: Lean proves for anchorLoop/anchorize (the model of src/html/anchorizer.rs used by the renderer model) '
         'that the decimal suffixes are injective, that issued.length+1 candidates always contain an unused one (pigeonhole), that the returned '
         'anchor is the first unused candidate, is not in the issued set and is added to it, and hence that the anchors issued for any list of '
         'heading texts under any normalisation table are pairwise distinct. The code as it is (since /repo commit 70a0ef9 the Anchorizer keeps a '
         'HashMap from every issued anchor to the first suffix not yet tried for it) is modelled statement by statement as anchorizeMemo; Lean '
         'proves the invariant MemoInv (keys = issued anchors; below the counter stored with a key every candidate is a key), that from related '
         'states anchorizeMemo returns the anchor of the set-based anchorize and re-establishes the invariant, hence that one fresh Anchorizer '
         'issues exactly the anchors of the specification for every list of headings (so distinctness transfers), that the contains_key probes '
         'over n headings are at most 2n (potential = sum of the stored counters; a suffixed anchor determines its base and suffix), and that '
         'the set-based loop needs n(n+1)/2 probes on n equal headings. Footnotes: processFootnotes (Comrak/Footnotes.lean) models the '
         "parser's pass (definition map keyed by folded label with last-one-wins, numbering walk over the whole tree including definitions, "
         'removal of outermost definitions, re-attachment in ix order with rewritten names and counts) with the label normaliser as a parameter; '
         'Lean proves that ix values are issued 1,2,3,.. in order of first reference for every tree; by factoring the walk through the list of '
         'resolvable keys (run/emit over that list) and showing that strip + re-attach only permutes the references, it proves for every tree and '
         'normaliser that every reference carries the number and name of a rendered definition (leaf references only), and - under the decidable '
         'hypotheses noNestedDefs / noRefInDropped / labelsCompat - that no name is rendered twice, that the references to each rendered '
         'definition carry ref_num 1..total_references, and that every rendered definition is referenced and no other definition is rendered; each '
         'hypothesis is shown necessary by a counterexample theorem. It refutes by decide-witnesses on the model '
         'the clauses the pass really violates (reference inside a dropped definition, X / X-2 names, definition nested in a definition, '
         'non-idempotent label normalisation), each re-established on the real code and listed in known_findings.json. Tie to the code on every '
         'run: real Anchorizer = anchorizeMemoAll (the memoised model, proved equal to anchorizeAll) on all sequences of length <= 3 over 9 colliding texts and on random longer ones; the real '
         'tree after process_footnotes = processFootnotes(real tree before it), node for node, on generated footnote documents (hook observer); '
         'whole documents byte-equal to the renderer model with header_ids and footnotes on. Search: the id/href graph of the real HTML (Lean '
         'lexHtml) is checked against every clause of the property.',
 'note': 'Trusted: Lean kernel + standard axioms; harness/driver; hook observer; label-normaliser parameter. The tree-level footnote clauses are general '
         'theorems about the model outside the listed defect classes; the HTML-level back-link/id clauses rest on the node-for-node model '
         'correspondence plus output oracles, not on a general theorem.',
 'technique': 'Lean 4 theorems (pigeonhole over injective decimal suffixes; refinement of the set-based anchorizer by the memoised one with an amortised probe count; mutual induction over the numbering walk, run/emit factorisation over the resolvable keys, permutation argument for strip + re-attach; decide witnesses) + '
              'differential correspondence of the pass through a cfg(comrak_verif) observer + id/href graph oracles on the real HTML',
 'design_ref': 'DESIGN.md section 7, C15'}
