"""Check configuration for C06 (loaded by checks_cfg.py)."""

ID = "C06"

PROP = {'lean_props': ['Comrak.Props.C06'],
 'lean_audit': ['Comrak.Audit.C06'],
 'required_theorems': ['escape_len',
                       'escapeHref_len',
                       'backticks_linear',
                       'backticks_pos_linear',
                       'btLoopPos_amortised',
                       'btLoop_bound',
                       'emphasis_terminates',
                       'emphasis_linear',
                       'emphasis_linear_bytes',
                       'emphasis_linear_of',
                       'emphasis_linear_old_noodd',
                       'emphasis_pinned_not_linear_counterexample',
                       'emphasis_fixed_on_family',
                       'emphasis_quadratic_counterexample',
                       'dollar_linear',
                       'math_dollar_linear',
                       'dlLoop_amortised',
                       'dollar_quadratic',
                       'cdSteps_pieces',
                       'cdScan_fail_cost',
                       'html_enter_size',
                       'html_exit_size',
                       'html_size_bound_partial',
                       'html_size_bound_noids_partial',
                       'refmap_budget',
                       'autocomplete_cap',
                       'xml_indent_cap',
                       'label_bounded',
                       'paren_depth_bounded',
                       'body_cells_eq', 'table_cells_capped'],
 'timeout_quick': 900,
 'timeout_thorough': 3400,
 'strength': 'partial (memos, opener search, caps, size bounds): theorems for the escapers, the backtick scanner with its positional memo as '
             'implemented (3n), process_emphasis as the code is since /repo commits 9704a60 and e31def4 (termination; 44 n + chars opener-search steps '
             'for every text and every delimiter character - a theorem about the current loop with its 42 openers_bottom slots, tied to the real '
             'counter by K equality for * _ ~; the loop before those commits: quadratic lower bound on the rule-of-three family, kept as a historical counterexample), the '
             'dollar scanners as the code is since /repo commits 657287d and b4925f3 (code-dollar: 3n dollar-scan steps, math-dollar with or '
             'without code-dollar: 5n, for every text - theorems about the current scanners with their no-closer memos, tied to the real counter '
             'by K equality; the memo-less scanner before those commits: quadratic lower bound, kept as history), HTML output size (per node for all 41 kinds, whole '
             'trees without footnote definitions), the reference budget and the caps; the three cost models are tied to the real step counters by '
             'equality in K; linearity of the block parser and of the whole inline loop is measured by the search stage (deterministic step '
             'counters on input families, always at full volume), not proved',
 'trusted_base': ['the step counters count what the hook lines bump (one per loop iteration / byte scanned in the instrumented loops); work done '
                  'outside the instrumented loops is seen by the instruction-count stage (valgrind cachegrind without cache simulation: the number of '
                  'instructions executed by one worker process on one input, a deterministic quantity) on the payload-context and nesting families, '
                  'and otherwise only by the wall-clock backstop of the isolated worker; valgrind is trusted to count instructions',
                  'backticks_pos_linear is proved for the positional memo model btStepsPos (run-level: gaps and run lengths); that this model '
                  'counts what the code counts is the K stage (equality with the real backtick-scan counter on exhaustive short and random '
                  'texts), and the 3n bound is checked again on every one of those texts',
                  'emphasis_linear is proved for the delimiter-stack model emLoop true (42 slots, bottom raised after every failed search, the ~ exit of '
                  'insert_emph included); that the model counts what the code counts is the K stage (equality with the real emphasis-opener-search '
                  'counter on all one-paragraph texts over {*,_,a,space} up to length 8/9, over {*,_,~,a,space} with strikethrough on up to length 7/8, '
                  'and on random texts; delimiter runs are extracted by a driver-side model of scan_delims for ASCII, with ~ as a skip character); '
                  'smart quotes are not modelled; ^ and | (superscript, spoiler) are covered by the theorem but not exercised by K; process_emphasis '
                  'calls with a non-zero stack_bottom (from brackets) are outside K',
                  'dollar_linear / math_dollar_linear are proved for the byte-level model dlLoop true (handle_dollars with both scanners and their '
                  'memos no_code_dollar_closer and no_dollar_closer_before[len], handle_backticks with its positional memo, handle_backslash); that the model counts what the code counts is the K '
                  'stage: equality with the real dollar-scan counter with math_code on over {$,`,a,\\} and with math_dollars on (with and without '
                  'math_code) over {$,`,a,\\,space,1}; other bytes that the inline loop treats specially (brackets, <, &, *, _, newlines ...) are '
                  'outside the modelled sublanguage',
                  'html_size_bound_partial is about the model renderHtml of Html.lean (tied to format_html by the byte-equality K of C10/C02/C18), '
                  'for trees without footnote definitions; heading anchors are bounded by hypothesis'],
 'assumptions': ['growth is judged between the two largest sizes of each family (log-log slope <= 1.25 + 0.10), output against 160 n + 4096 bytes']}

TEXT = {'text_added': 'The caps the property names are observed on the tree: table cells at most those in the source + 500 000 + one row (and HTML within 160 n + 4096 + 12 bytes per capped cell), list nesting at most 100 for up to 3000 markers on one line, reference expansion at most max(100 000, input); families prefix^n a (LF)^n for the container markers are in the step-counter and instruction-count stages. Reference expansion is also observed with the uses spread over hundreds of paragraphs and headings (the budget is the document\'s).',
 'text': 'Proof (partial). Lean proves: escape and escape_href write at most 6 bytes per input byte; the backtick scanner with its positional memo, as '
         'implemented, takes at most 3n counted steps over a whole inline text (a memo entry ahead of the current position always points at a run '
         'that is still ahead, so after the first scan that runs to the end no scan fails again); process_emphasis, as the code is since /repo commits 9704a60 and e31def4 (42 openers_bottom slots - six per '
         'delimiter character -, the bottom raised after every failed search), terminates and its opener search takes at most 44 n + chars steps on '
         'every text, whatever its delimiter characters (n runs, chars delimiter characters; at most 45 steps per delimiter byte), while the loop before those commits took at '
         'least m^2/2 steps on 4m delimiter runs of the rule-of-three family (former known finding, now fixed; kept as a counterexample theorem about the old loop); the HTML '
         'formatter model writes at most 6 bytes per byte of document text + 364 bytes per node + the decimal strings (trees without footnote '
         'definitions, header_ids off or anchors bounded); the dollar scanners as the code is since /repo commits 657287d and b4925f3 (a code-dollar scan that '
         'runs to the end sets a flag; every failed $ / $$ scan - end of input, space before or digit after the closing $ - records where it '
         'failed, and an opener whose scan would start before that position costs nothing) take at most 3n dollar-scan steps with math_code alone '
         'and at most 5n with math_dollars (with or without math_code), for every text: the records only move forward and a scan that finds its '
         'closer is paid by what it consumes (657287d alone left the space / digit rule without a memo: "$\\\\" x k followed by " $" still '
         'cost about 1.5 k^2 steps - found by the model, confirmed against the real counter, repaired in b4925f3); before those commits the '
         'memo-less code-dollar scanner took (p+1) n (n+1)/2 - n steps on n unclosed openers '
         '(former known finding, now fixed; kept as a theorem about the old scanner); the reference-expansion budget is never '
         'exceeded; table autocompletion stops within one row of MAX_AUTOCOMPLETED_CELLS; XML indentation is capped at 40; link-label scans give up '
         'after 1001 steps; URL parenthesis depth is capped at 32. Tie to the code (hook comrak::verif::steps, cfg(comrak_verif)), equality of step '
         'counts: backtick-scan == the positional cost model on all one-paragraph texts over {a,`} up to length 11 (quick) / 14 (thorough) and on '
         'random texts with runs up to 200; dollar-scan == the byte-level model of the current scanners on all texts over {$,`,a,\\} up to length 8 / 9 with math_code, on all '
         'texts over {$,`,a,\\,space,1} up to length 6 / 7 with math_dollars (with and without math_code), on random ones and on the families of '
         'the former findings (the model of the scanners before the repair differs on ~2300 of them); emphasis-opener-search == the delimiter-stack model of the current loop on all '
         'texts over {*,_,a,space} up to length 8 / 9, all texts over {*,_,~,a,space} containing ~ up to length 7 / 8 with strikethrough on, random ones and the rule-of-three families (the model of the loop before the repair differs on ~2000 of them); the proved bounds are re-checked on every text. Search (always full volume): for every fragment up to length '
         '3/4 over a 30-symbol Markdown alphabet and ~150 curated shapes, families f^n, (f LF)^n, f^n a mirror(f)^n and tree-shaped repetitions '
         'are parsed and rendered (HTML, CommonMark, XML) under default, GFM and all-extensions options in isolated workers; the log-log slope '
         'of the 12 summed step counters between the two largest n must stay <= 1.25 and output <= 160 n + 4096. Four super-linear classes of '
         'the pinned tree are listed as known findings (code-dollar scanner, math-dollar scanner with escaped dollars, recursive e-mail autolink '
         'pass, emphasis opener search under the rule of three; all four since repaired in /repo, commits 657287d + b4925f3, e3c39db and 9704a60 + e31def4, and listed as fixed). Instruction counts: for 20 payload contexts (link destination, title, info string, reference label and definition, autolink, code span, alert title, wikilink, HTML attribute, heading, table cell, footnote label, task item, math, description details) filled with n copies of a fragment, and for the curated nesting shapes, one worker process per input is run under valgrind (cachegrind, no cache simulation) at n = 6000 and 12000 and the log-log slope of the executed instructions above the empty-document run must stay <= 1.40: this sees copying, memmove, hashing and formatting that no step counter sits in (it found the nested footnote-label finding, and it is what reports a quadratic helper under the cleaning functions).',
 'note': 'Trusted: Lean kernel + standard axioms; harness, worker protocol, hook lines, valgrind instruction counts; work outside the hooked loops is covered by instruction counts on the payload-context and nesting families and by wall clock elsewhere.',
 'technique': 'Lean 4 cost models with proved bounds + step-counter correspondence through cfg(comrak_verif) hooks + growth-exponent search on '
              'input families in isolated processes',
 'design_ref': 'DESIGN.md section 7, C06'}
