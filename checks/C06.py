"""Check configuration for C06 (loaded by checks_cfg.py)."""

ID = "C06"

PROP = {'lean_props': ['Comrak.Props.C06'],
 'lean_audit': ['Comrak.Audit.C06'],
 'required_theorems': ['escape_len',
                       'escapeHref_len',
                       'backticks_linear',
                       'btLoop_bound',
                       'dollar_quadratic',
                       'refmap_budget',
                       'autocomplete_cap',
                       'xml_indent_cap',
                       'label_bounded',
                       'paren_depth_bounded'],
 'timeout_quick': 900,
 'timeout_thorough': 3400,
 'strength': 'partial (caps, memo, size bounds): theorems for the escapers, the backtick scanner with its memo, the reference budget and the '
             'caps; linearity of the block parser, the inline loop and process_emphasis is measured by the search stage (deterministic step '
             'counters on input families, always at full volume), not proved',
 'trusted_base': ['the step counters count what the hook lines bump (one per loop iteration / byte scanned in the instrumented loops); work done '
                  'outside the instrumented loops is only seen by the wall-clock backstop of the isolated worker',
                  "backticks_linear is proved for the specification-level memo (btSteps); the positional memo of the code (btStepsPos, which can "
                  'forget a closer) is tied to the real counter by equality on exhaustive short and random texts, and the 3n bound is checked on '
                  'every one of those texts'],
 'assumptions': ['growth is judged between the two largest sizes of each family (log-log slope <= 1.25 + 0.10), output against 160 n + 4096 bytes']}

TEXT = {'text': 'Proof (partial). Lean proves: escape and escape_href write at most 6 bytes per input byte; the backtick scanner with its memo takes at '
         'most 3n counted steps over a whole inline text (amortised: one step per opener, every byte scanned at most once by a successful scan, at '
         'most one unsuccessful scan to the end, which sets the flag); the memo-less code-dollar scanner takes exactly (p+1) n (n+1)/2 steps on n '
         'unclosed openers (quadratic lower bound, a defect of the pinned tree listed as a known finding); the reference-expansion budget is never '
         'exceeded; table autocompletion stops within one row of MAX_AUTOCOMPLETED_CELLS; XML indentation is capped at 40; link-label scans give up '
         'after 1001 steps; URL parenthesis depth is capped at 32. Tie to the code: the real backtick-scan step counter (hook comrak::verif::steps, '
         'cfg(comrak_verif)) equals the Lean positional cost model on all one-paragraph texts over {a,`} up to length 11 (quick) / 14 (thorough) '
         'and on random texts with runs up to 200, and stays below the proved bound. Search (always full volume): for every fragment up to length '
         '3/4 over a 30-symbol Markdown alphabet and ~150 curated shapes, families f^n, (f LF)^n, f^n a mirror(f)^n and tree-shaped repetitions '
         'are parsed and rendered (HTML, CommonMark, XML) under default, GFM and all-extensions options in isolated workers; the log-log slope '
         'of the 12 summed step counters between the two largest n must stay <= 1.25 and output <= 160 n + 4096. Four super-linear classes of '
         'the pinned tree are listed as known findings (code-dollar scanner, math-dollar scanner with escaped dollars, recursive e-mail autolink '
         'pass, emphasis opener search under the rule of three).',
 'note': 'Trusted: Lean kernel + standard axioms; harness, worker protocol, hook lines; un-instrumented work is covered by wall clock only.',
 'technique': 'Lean 4 cost models with proved bounds + step-counter correspondence through cfg(comrak_verif) hooks + growth-exponent search on '
              'input families in isolated processes',
 'design_ref': 'DESIGN.md section 7, C06'}
