"""Check configuration for C05 (loaded by checks_cfg.py)."""
from checks_common import HTML_TB

ID = "C05"

PROP = {
    'lean_props': ['Comrak.Props.C05'],
    'lean_audit': ['Comrak.Audit.C05'],
    'required_theorems': ['footnotes_order_independent', 'attrs_order_independent'],
    'strength': 'order-independence theorems for the two hash-iteration sites + functional models; function-ness of the real code '
                'by repetition / threads / processes against the model',
    'trusted_base': HTML_TB + [
        "data races cannot be exhibited by the model: absence of shared mutable state is Rust's type system (Send + Sync, no unsafe impl) plus the source audit /verif/audit/c05_sites.txt",
        "the syntect adapter is linked into the harness (comrak feature `syntect`) and exercised by execution only (shared adapter across the documents of a worker, racing threads, fresh adapter); syntect itself (the syntax/theme tables, the regex engine) is outside the model",
    ],
    'assumptions': ['a new hash-map / ambient-state site in /repo/src is reported as a broken obligation (source audit), never by itself as a violation'],
}

TEXT = {'text_added': "Also compared: a document parsed into a fresh arena and into the caller's arena after 600 000 nodes of earlier documents; documents with undefined references parsed on one thread and on 6..16 threads sharing one Options whose broken_link_callback keeps half of the threads inside it at the same moment.",
 
    'text': "Proof + exploration of the runtime part. The renderer models are Lean functions of (options, tree) and the correspondence shows "
            "on every run that real format_html equals them byte for byte, so the real output is a function too wherever explored. Lean "
            "proves that the two places where the code computes output from a hash map's iteration order are order independent for "
            "every permutation: the footnote definitions appended by process_footnotes (sort by index + filter, distinct indices) and the "
            "attributes written by the repaired syntect adapter (sorted by key). The pinned tree's defect (fenced code block attributes "
            "written in HashMap order: different bytes from call to call) was repaired by a fix: commit. What a theorem cannot exhibit "
            "(thread interleavings, per-process hash seeds) is explored: each (document, options) is rendered repeatedly in one thread, "
            "from 8 threads sharing one Options value, and in fresh processes, by the HTML, XML and CommonMark formatters; all results "
            "must be byte-identical. The syntax-highlighter plugin is run the same way: documents with fenced code blocks in known, unknown and empty languages are rendered through one SyntectAdapter shared by all cases of a worker process (state kept in the adapter across documents shows as a difference from a fresh adapter), by 8 racing threads, and by a fresh adapter. Footnote graphs (definitions that make the first reference to further footnotes, chains, cycles, nested and duplicate definitions) are a generator family of their own. A syntactic audit compares every HashMap/HashSet/global-state site of /repo/src with a committed allow-list.",
    'note': 'Trusted: Lean kernel + standard axioms; harness/driver; Rust type system for data-race freedom; the audit scanner. Partial by nature: '
            'schedules and processes are sampled.',
    'technique': 'Lean 4 theorems (sorted permutations are equal, via core List.Perm.eq_of_pairwise / mergeSort lemmas) + differential '
                 'correspondence + repeat/thread/process metamorphic runs + source audit',
    'design_ref': 'DESIGN.md section 7, C05',
}
