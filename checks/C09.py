"""Check configuration for C09 (loaded by checks_cfg.py)."""

ID = "C09"

PROP = {'lean_props': ['Comrak.Props.C09'],
 'lean_audit': ['Comrak.Audit.C09'],
 'required_theorems': ['xml_escape_eq_html_escape',
                       'stack_traversal_eq_recursive',
                       'indent_bounded',
                       'xml_balanced',
                       'xml_attr_values_escaped',
                       'xml_names_legal',
                       'xml_lexes',
                       'xml_tokens_lexable',
                       'xml_mirrors_tree',
                       'xml_wellformed',
                       'C09_mirrors_full_holds',
                       'C09_wellformed_full_holds',
                       'literal_with_children_rejected',
                       'escapedTag_example',
                       'escapedTag_payload_before_fix',
                       'info_unescaped_before_fix'],
 'strength': 'byte level, full: for every option vector and every tree without children under literal kinds (every parsed tree) the strict '
             'reader accepts the rendering and returns exactly the element tree of the AST (xml_mirrors_tree = the named full statement '
             'C09_mirrors_full, proved); the remaining hypothesis is necessary (Lean witness literal_with_children_rejected); escaping and legal '
             'names are proved for every tree at all; the former EscapedTag exception was repaired in /repo commit ce28ea3 and its witness is '
             'now a positive example',
 'trusted_base': ["the work-stack machine of xml.rs's format() is modelled (XmlStack.lean) and proved to write the tokens of the recursive "
                  'renderXmlT/renderXmlF; the context a table cell looks up through ancestors()/preceding_siblings() travels with the work item',
                  'readXml (the strict reader that is the oracle) is a hand-written Lean definition of "well-formed": the two prolog lines, one '
                  'root, names [A-Za-z_][A-Za-z0-9_:.-]*, unique double-quoted attributes, no raw < > in text and no raw < > " in values, & only '
                  'as one of the four entities, proper nesting, white space only outside the root',
                  'xmlTree (what "mirrors the tree" means) takes the attribute list from the same per-kind table as the renderer; that the REAL '
                  'output carries these attributes is what K (byte equality) and S (reader on real bytes) check on every case'],
 'assumptions': ['plugins are ignored by xml.rs (the _plugins field is never read)',
                 "XML 1.0's Char production (control characters) is not demanded by the property and not checked",
                 'a table cell in a header row whose index is past the alignments vector, or without a parent and grandparent, panics in the '
                 'code; the model writes no attribute there (never produced by the parser nor by the tree generator)',
                 'that no literal-kind node of a parsed tree has children (hypothesis litLeafT of the theorems, the only one left) is evaluated '
                 'by the model on every tree of the run; a tree built by hand with a child under a text/code/raw-HTML/code-block/math node is '
                 'outside the statement (its rendering carries two end tags: literal_with_children_rejected)',
                 'a panic inside parse_document leaves no tree to render and is counted as skipped (it is the subject of C01)']}

TEXT = {'text_added': 'Tables that reach the auto-completion cap (more than 500 000 cells, too large for the model) are checked on the Rust side: format_xml returns and the output has one element per cell, row and paragraph. Directly built trees contain zero-length text nodes.',
 'text': 'Proof. xml.rs is modelled completely at token level (prolog, 41 node kinds with their attributes, the private escape loop, min(indent,40) '
         'indentation, Pre/Post traversal incl. the literal-kind quirk; the EscapedTag payload is the escaped attribute tag="..." since the repair '
         'ce28ea3); spellXml gives the exact bytes. A strict XML reader '
         '(readXml: byte-at-a-time lexer + stack builder) and the element tree an AST stands for (xmlTree) are defined in Lean. Lean proves, for '
         'every option vector and every tree of any depth/width in which no literal-kind node has children, that '
         'readXml(renderXml o t) = some(xmlTree o t): the document is well-formed and its element tree is the AST node for node, with literals, '
         'destinations, titles, labels, info strings and escaped-tag payloads recovered byte for byte (xml_mirrors_tree, which is the full '
         'statement C09_mirrors_full; via lexing lemmas for names, escaped '
         'values/text, attribute lists with pairwise different names, and a mutual induction for the builder). Also proved, for '
         'every tree at all: every element and attribute name is legal and every piece of a start tag is a name="value" attribute '
         '(xml_names_legal), every token is lexable (xml_tokens_lexable); the private escape equals html::escape; every attribute value and text run is escape(p), hence free of raw < > " '
         'and stray & (reusing the C19 theorem); tags balance whenever no literal-kind node has children; indentation is at most 40; the explicit Pre/Post work-stack machine with its indent += 2 / -= 2 accounting writes exactly the tokens of the recursive renderer (stack_traversal_eq_recursive). The '
         'EscapedTag defect (payload written verbatim inside the start tag, <escaped_tag|>), which used to refute the full statement, was '
         'repaired in /repo commit ce28ea3 (payload = escaped value of the attribute tag): its witness tree is now a positive decide-example '
         '(escapedTag_example), the bytes written before the repair are shown rejected and the new ones accepted '
         '(escapedTag_payload_before_fix), and the replays are kept and pass; likewise the info-string defect (commit b557667, '
         'info_unescaped_before_fix). No finding is listed for C09 any more: every S failure on any tree is a violation. Tie to the code on every run: real format_xml bytes equal the model bytes on generated documents and directly built trees x '
         'random options (sourcepos on/off), incl. EscapedTag trees with hostile payloads ("<&>, attribute and tag look-alikes, empty); the Lean reader is run on the REAL bytes and must return exactly xmlTree of the same AST.',
 'note': 'Trusted: Lean kernel + standard axioms; harness/driver; readXml is our '
         'definition of well-formedness (stricter than XML 1.0 on raw >, laxer on control characters); xmlTree shares the per-kind attribute '
         'table with the renderer model.',
 'technique': 'Lean 4 theorems (byte-level read-back by lexer/builder lemmas and mutual induction over Tree/Forest; generic all-tokens induction '
              'with per-kind attribute lemmas; escape lemma reuse from C19; decide witnesses) + differential correspondence (byte-equal XML) + '
              'Lean strict-reader oracle on real output compared with the AST',
 'design_ref': 'DESIGN.md section 7, C09'}
