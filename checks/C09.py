"""Check configuration for C09 (loaded by checks_cfg.py)."""

ID = "C09"

PROP = {'lean_props': ['Comrak.Props.C09'],
 'lean_audit': ['Comrak.Audit.C09'],
 'required_theorems': ['xml_escape_eq_html_escape',
                       'stack_traversal_eq_recursive',
                       'indent_bounded',
                       'xml_balanced',
                       'xml_attr_values_escaped',
                       'xml_names_legal',
                       'xml_lexes',
                       'xml_mirrors_tree_partial',
                       'xml_wellformed_partial',
                       'escapedTag_counterexample',
                       'C09_mirrors_full_false'],
 'strength': 'byte level, full for every option vector and every tree without children under literal kinds and without EscapedTag nodes: the '
             'strict reader accepts the rendering and returns exactly the element tree of the AST (xml_mirrors_tree_partial); the full statement '
             'is refuted at EscapedTag by a Lean witness (listed finding); balance and escaping are additionally proved without the EscapedTag '
             'restriction (escaping for every tree at all)',
 'trusted_base': ["the work-stack machine of xml.rs's format() is modelled (XmlStack.lean) and proved to write the tokens of the recursive "
                  'renderXmlT/renderXmlF; the context a table cell looks up through ancestors()/preceding_siblings() travels with the work item',
                  'readXml (the strict reader that is the oracle) is a hand-written Lean definition of "well-formed": the two prolog lines, one '
                  'root, names [A-Za-z_][A-Za-z0-9_:.-]*, unique double-quoted attributes, no raw < > in text and no raw < > " in values, & only '
                  'as one of the four entities, proper nesting, white space only outside the root',
                  'xmlTree (what "mirrors the tree" means) takes the attribute list from the same per-kind table as the renderer; that the REAL '
                  'output carries these attributes is what K (byte equality) and S (reader on real bytes) check on every case'],
 'assumptions': ['plugins are ignored by xml.rs (the _plugins field is never read)',
                 "XML 1.0's Char production (control characters) is not demanded by the property and not checked",
                 'a table cell in a header row whose index is past the alignments vector, or without a parent and grandparent, panics in the '
                 'code; the model writes no attribute there (never produced by the parser nor by the tree generator)',
                 'that no literal-kind node of a parsed tree has children (hypothesis litLeafT of the theorems) is evaluated by the model on '
                 'every tree of the run',
                 'a panic inside parse_document leaves no tree to render and is counted as skipped (it is the subject of C01)']}

TEXT = {'text': 'Proof. xml.rs is modelled completely at token level (prolog, 41 node kinds with their attributes, the private escape loop, min(indent,40) '
         'indentation, Pre/Post traversal incl. the literal-kind and EscapedTag quirks); spellXml gives the exact bytes. A strict XML reader '
         '(readXml: byte-at-a-time lexer + stack builder) and the element tree an AST stands for (xmlTree) are defined in Lean. Lean proves, for '
         'every option vector and every tree of any depth/width in which no literal-kind node has children and no node is an EscapedTag, that '
         'readXml(renderXml o t) = some(xmlTree o t): the document is well-formed and its element tree is the AST node for node, with literals, '
         'destinations, titles, labels and info strings recovered byte for byte (xml_mirrors_tree_partial; via lexing lemmas for names, escaped '
         'values/text, attribute lists with pairwise different names, and a mutual induction for the builder). Also proved without the '
         'EscapedTag restriction: the private escape equals html::escape; every attribute value and text run is escape(p), hence free of raw < > " '
         'and stray & (reusing the C19 theorem); tags balance whenever no literal-kind node has children; indentation is at most 40; the explicit Pre/Post work-stack machine with its indent += 2 / -= 2 accounting writes exactly the tokens of the recursive renderer (stack_traversal_eq_recursive). The '
         'EscapedTag defect (payload written into the element name) is exhibited by a decide-witness rejected by readXml, refutes the full '
         'statement, and is a listed finding; the info-string defect was repaired (fix: commit), its Lean before/after witness and replay are '
         'kept. Tie to the code on every run: real format_xml bytes equal the model bytes on generated documents and directly built trees x '
         'random options (sourcepos on/off); the Lean reader is run on the REAL bytes and must return exactly xmlTree of the same AST.',
 'note': 'Trusted: Lean kernel + standard axioms; harness/driver; readXml is our '
         'definition of well-formedness (stricter than XML 1.0 on raw >, laxer on control characters); xmlTree shares the per-kind attribute '
         'table with the renderer model.',
 'technique': 'Lean 4 theorems (byte-level read-back by lexer/builder lemmas and mutual induction over Tree/Forest; generic all-tokens induction '
              'with per-kind attribute lemmas; escape lemma reuse from C19; decide witnesses) + differential correspondence (byte-equal XML) + '
              'Lean strict-reader oracle on real output compared with the AST',
 'design_ref': 'DESIGN.md section 7, C09'}
