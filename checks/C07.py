"""Check configuration for C07 (loaded by checks_cfg.py)."""

ID = "C07"

CM_TB = ["recursive renderT/renderF of Comrak/Cm.lean stand for cm.rs's explicit work-stack traversal (exercised by the correspondence, not proved)",
         "the Lean model keeps the output buffer reversed and models the u32 bit set of shortest_unused_sequence as a list of run lengths; "
         "both representations are tied to the real code by the byte-equality correspondence and the hook comparison",
         "the parser is not modelled: the two round-trip relations are evaluated on the real parse_document/format_commonmark/format_html (search stage, always full volume)"]

PROP = {'lean_props': ['Comrak.Props.C07'],
 'lean_audit': ['Comrak.Audit.C07'],
 'required_theorems': ['longestCharSequence_spec',
                       'code_fence_longer_than_content',
                       'shortestUnused_spec',
                       'code_span_ticks_unused',
                       'outc_escapes_specials',
                       'table_escape_pipes',
                       'cm_prefix_after_literal_counterexample',
                       'pct2X_wellformed',
                       'item_exit_restores_prefix',
                       'output_keeps_frame',
                       'cm_round_trip_canon_partial'],
 'strength': 'partial: proved for all inputs are the delimiter/fence/escape/table-pipe facts about the writer model (byte-equal to the real writer on '
             'every generated tree); the round-trip relation itself is false on the pinned tree (Lean witnesses + listed finding classes) and is '
             'decided per input by the search oracle on the real parser and writer; on the sub-class Doc.cmOk of the C03 canonical documents the round trip is a theorem modulo the K correspondence (cm_round_trip_canon_partial: the writer model reproduces the document\'s own text)',
 'trusted_base': CM_TB,
 'assumptions': ['claimed class of the two round-trip oracles (S): documents built from the standard constructs (paragraphs, ATX/setext headings, thematic breaks, '
                 'fenced/indented code, block quotes, bullet/ordered lists tight/loose, task items, HTML blocks, tables, one referenced footnote; emphasis/strong, '
                 'code spans, links, images, angle autolinks, hard breaks, entities, backslash escapes, strikethrough; text over every Markdown-significant '
                 'character) and the canonical documents of the C03 model, x GFM extensions + footnotes in every combination x list_style x prefer_fenced, with '
                 'width = 0, ol_width = 0 or 2..6, smart off',
                 'NOT in the S class (stated restrictions): width > 0 (re-flow moves block markers to line starts and breaks table rows/code spans - covered by '
                 'K only), ol_width > 6, smart, text that looks like an extended autolink (www., scheme://, @), `^` `$` `;` '
                 'as free text tokens, block quotes inside list items, task items not starting with a paragraph, emphasis adjacent to other inline syntax '
                 'without a space (except the generated direct nestings), non-GFM extensions, hardbreaks, relaxed_*, ignore_*, escaped_char_spans, '
                 'default_info_string, experimental_minimize_commonmark, palette/byte-soup inputs',
                 'admitted differences: the end-of-list comment, directly nested strong (gfm_quirks comparison), soft-break placement inside headings',
                 'a failure is counted under a listed mechanism only if removing that mechanism\'s trigger from the parsed tree makes the clause pass '
                 '(counterfactual attribution); parser panics are skipped (C01\'s subject)'],
 'timeout_quick': 900,
 'timeout_thorough': 3000}

TEXT = {'text': 'Proof + search. The CommonMark writer (cm.rs) is modelled completely in Lean: pure helpers, the line-assembly state machine (prefix, need_cr, '
         'begin_line, begin_content, column, last_breakable, in_tight_list_item, no_linebreaks, ol_stack, custom_escape), output/outc and format_node for '
         'all 41 node kinds (renderCm). Lean proves for all inputs: the fence chosen for a code block is at least 3 long and no run of that many fence '
         'characters occurs in the literal; the code-span delimiter length is the least positive length that is not a maximal backtick run (for runs < 32); '
         'outc writes every one of * _ [ ] # < > \\ ` ! with a backslash in every context, the line-start markers and ordered-list delimiters at the '
         'start of content, & before a letter, control bytes as numeric references, and the destination/title specials; inside a table every literal | '
         'is preceded by a backslash. The gaps of the decision (~ | : @ " and - + = after a wrap break) and two state-machine defects (container prefix '
         'lost after a literal block; ordered-list marker width taken from the incremented number) are Lean counterexample theorems. Tie to the code: '
         'renderCm is byte-equal to the real format_commonmark on parsed documents and directly built trees under random option vectors. The round trip '
         'html(parse(cm(parse x))) == html(parse x) is evaluated on the real code over the construct grammar with text over every Markdown-significant '
         'character x width x list_style x ol_width x prefer_fenced x GFM extensions; each failure is shrunk and classified by the first structural '
         'difference of its own round trip (context, construct kind, what it became, option needed); classes found on the pinned tree are listed '
         'findings, any other class is a violation.',
 'note': 'Trusted: Lean kernel + standard axioms; harness/driver; the recursive traversal standing for the work stack. The parser is exercised, not modelled.',
 'technique': 'Lean 4 theorems about a complete model of cm.rs + byte-equality correspondence + full-volume metamorphic search with shrinking and '
              'delta classification on the real parser/writer',
 'design_ref': 'DESIGN.md section 7, C07/C17'}
