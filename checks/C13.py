"""Check configuration for C13 (loaded by checks_cfg.py)."""

ID = "C13"

PROP = {'lean_props': ['Comrak.Props.C13'],
 'lean_audit': ['Comrak.Audit.C13'],
 'regen': ['specialchars'],
 'required_theorems': ['tables_differ_only_at_triggers',
                       'skip_differs_only_at_triggers',
                       'smart_differs_only_at_triggers',
                       'arm_inert',
                       'findSpecialChar_inert',
                       'text_run_split_invisible',
                       'site_inert_emphasis_eligible',
                       'site_inert_emph_kind',
                       'site_inert_block_quote_start',
                       'site_inert_footnote_definition',
                       'site_inert_table_open',
                       'site_inert_tasklist',
                       'site_inert_lazy_greentext_counterexample',
                       'site_inert_lazy_partial',
                       'site_inert_description_list_counterexample',
                       'site_inert_description_list_partial'],
 'strength': 'partial: the special/skip/smart tables (regenerated from the real code on every run), the dispatch of parse_inline, '
             'find_special_char and the catalogued consultation sites are proved inert off the trigger characters; that the whole parser is '
             'inert is the composition of those sites (not proved) and is searched on the real code at full volume on every run',
 'timeout_quick': 900,
 'timeout_thorough': 3000,
 'trusted_base': ['the trigger table (lean/Comrak/Features.lean) is a reading of the option documentation; the harness mirror is compared with '
                  'it on every run',
                  'the consultation sites are hand-written models of the guarded conditions in src/parser; their list is tied to the source by '
                  'the syntactic consultation audit (/verif/audit/option_reads.json), their bodies are not compared with the code one by one',
                  'scanner facts used as hypotheses of site lemmas (table_start needs a dash, alert_start needs a leading >) are not regenerated'],
 'assumptions': ['documents are valid UTF-8 (they are Rust &str)',
                 'the shortcodes cargo feature is off in the verification build',
                 'header_ids is exercised with the prefix "h-", front_matter_delimiter with "---"']}

TEXT = {'text': 'Proof + exhaustive search. trigger : Feature -> byte -> Bool is written from the documentation of the 23 switchable features. The '
         'three 256-entry tables that Subject::new computes (special, skip, smart) are regenerated from the real code for all 128 combinations of '
         'the seven option bits that feed them before every proof stage; Lean re-proves over that data that switching F on changes each table '
         'only at F\'s trigger bytes, that the smart table lies inside smart\'s triggers, and that no other option feeds the tables. On top of the '
         'tables Lean proves that a non-trigger byte selects the same arm of parse_inline with the same option bits (arm_inert), that '
         'find_special_char returns the same position on trigger-free input (findSpecialChar_inert), that the cutting of text into runs is '
         'invisible in the HTML (escape is a homomorphism), and one inertness lemma per catalogued consultation site of the block and inline '
         'parser; the greentext clause of add_text_to_container and the undocumented ~ marker of description lists are refuted by Lean '
         'counterexamples and listed as known findings, as are character references that decode to a trigger character (tasklist, e-mail '
         'autolinks) and the nested-link clause of render_link (relaxed_autolinks). Tie to the code: regenerated tables compared with the '
         'driver; consultation audit of every options.* read in src/parser and html.rs against a committed allow-list. Search (always at full '
         'volume): markdown_to_html(x, base) == markdown_to_html(x, base+F) for every F, exhaustively over all valid UTF-8 documents of length '
         '<= 2 without F\'s triggers in three contexts on two (thorough: four) bases, and over trigger-stripped documents of the shared generators '
         'on random option vectors.',
 'note': 'Trusted: Lean kernel + standard axioms; harness/driver/hook wrapper; the reading of the documentation in the trigger table; the '
         'consultation-site models (list tied by audit, bodies by reading). Inertness of the whole parser is searched, not proved.',
 'technique': 'Lean 4 theorems over regenerated finite tables (decide +kernel on bit masks) and hand-written dispatch/site models + '
              'exhaustive/random on-off differential search through public API + syntactic consultation audit',
 'design_ref': 'DESIGN.md section 7, C13'}
