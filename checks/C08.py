"""Check configuration for C08 (loaded by checks_cfg.py)."""

ID = "C08"

PROP = {'lean_props': ['Comrak.Props.C08'],
 'lean_audit': ['Comrak.Audit.C08'],
 'required_theorems': ['feed_eq_splitLines',
                       'lines_crlf',
                       'lines_cr',
                       'lines_any_endings',
                       'lines_final_newline',
                       'lines_nul',
                       'bom_first_line',
                       'bom_skipped',
                       'sentinel'],
 'strength': 'full for the line splitter and the process_line prelude (the sequence of lines the block parser reads is proved invariant under '
             'each rewrite, for every text); the step from "same lines" to "same HTML" is covered by the relational search on the real code; '
             'of the two raw-text readers outside the splitter, the front matter split reads lines the same way since /repo commits d92265f / ef24343 '
             '(Lean: C20.front_matter_any_line_endings; the former CR-only finding is status=fixed), the total_size budget violates the statement '
             'and is a listed finding',
 'trusted_base': ['the block parser reads the text only through process_line (tied by the line tap: every process_line call of the real parser is '
                  'compared with the model) plus the two listed raw-text readers (split_off_front_matter, total_size)',
                  'the model carries the remaining input s[buffer..] as a list instead of the index buffer'],
 'assumptions': ['input is valid UTF-8 (a Rust &str)', 'position attributes (sourcepos) are excluded from the comparison: a BOM legitimately shifts '
                 'first-line columns',
                 'LF->CRLF and LF->CR are applied to CR-free texts; +BOM to texts that do not already start with a BOM; +final newline to texts '
                 'without a final line end (the excluded points are Lean examples/counterexamples)']}

TEXT = {'text': 'Proof. Parser::feed/finish (outer loop, inner scan, NUL -> U+FFFD, CR/LF advance, last_buffer_ended_with_cr, linebuf) and the head of '
         'process_line (sentinel newline, BOM skip when line_number = 0) are modelled in Lean; feed_eq_splitLines proves the loop equal to a '
         'structural specification splitLines, and for every text: the line sequence is unchanged by LF->CRLF and LF->CR (CR-free texts), by rewriting any mix of CRLF/CR/LF as LF, by a '
         'final newline (non-empty text without one), by NUL -> U+FFFD, and a prepended BOM only prefixes the first line with three bytes that '
         'the prelude skips (bom_skipped: the block parser reads exactly the terminated lines of the text itself); every line the block parser '
         'sees is non-empty, ends in LF and has no LF/CR/NUL before it. Tie to the code: the tapped process_line calls of the real parser '
         '(argument, line after sentinel, offset, line number) equal the model on every string of <= 7 (quick) / 8 (thorough) symbols over '
         '{a, space, LF, CR, NUL, BOM} and on generated documents with line-ending noise. The whole-parser step (same lines => same HTML, skipped '
         'prefix treated as absent) is searched on the real code: markdown_to_html(x) vs markdown_to_html(T x) for the rewrites over generated '
         'documents x random option vectors (the extra relation "any mix of line endings -> LF" now also with a front-matter delimiter set). One '
         'genuine violation is listed as a known finding: the reference-expansion budget max(total_size, 100000) depends on the raw byte count. '
         'The former second one (front matter with CR-only line endings was not recognised) is repaired in /repo commit d92265f and status=fixed; '
         'its replay is kept.',
 'note': 'Trusted: Lean kernel + standard axioms; harness/driver/line-tap hook; "the parser reads the text only through process_line" is tied by '
         'the tap, not proved; the L4 step is search, not proof.',
 'technique': 'Lean 4 theorems about a loop-shaped model of feed() and its structural specification (list induction) + exhaustive/random '
              'differential correspondence through a cfg(comrak_verif) process_line tap + metamorphic search on the real renderer',
 'design_ref': 'DESIGN.md section 7, C08'}
