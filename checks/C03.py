"""Check configuration for C03 (loaded by checks_cfg.py)."""
from checks_common import HTML_TB  # noqa: F401

ID = "C03"

PROP = {'lean_props': ['Comrak.Props.C03'],
 'lean_audit': ['Comrak.Audit.C03'],
 'required_theorems': ['refHtml_eq_renderHtml_canon',
                       'refHtml_eq_renderHtml_of_safe',
                       'shape_canon',
                       'block_canon',
                       'inlines_canon',
                       'table_canon',
                       'items_canon',
                       'footnotes_canon',
                       'toTreeP_erase_canon',
                       'positions_canon_partial',
                       'write_lines_clean_canon',
                       'positions_canon'],
 'strength': 'partial (_canon): proved for every document of the canonical class (unbounded depth and size; every construct the property '
             'names: paragraphs, ATX/setext headings, thematic breaks, fenced and indented code, block quotes, tight/loose bullet and ordered lists, '
             'task items, GFM tables with alignments, HTML blocks (start condition 6, safe mode), footnote definitions and references with the '
             'footnote section and its back-links, emphasis, strong, strikethrough, code spans, inline/reference links, images, autolinks, breaks, '
             'entities, escapes); the class is not the whole language, and the parser step (parse_document (write d) = toTree d) is the '
             'correspondence, checked on every run, not a theorem; positions_canon: for every canonical document the source positions of '
             'Doc.toTreeP (the ones K compares with the real parser) satisfy all C11/C12 oracle clauses on write d',
 'trusted_base': ["recursive renderT/renderF stand for comrak's explicit work-stack traversal (exercised by the correspondence on deep and wide "
                  'trees, not proved)',
                  'the model of html.rs (Comrak/Html.lean) is tied to the real formatter by the shared renderer correspondence of C10/C02 and, '
                  'for canonical documents, by S here (real markdown_to_html = refHtml = model on toTree)',
                  'the reference renderer Comrak/Canon/Ref.lean is written from the CommonMark 0.31.2 prose and examples (tight/loose <li>, '
                  '<pre><code class="language-x">, start attribute, alt text, percent-encoding convention of the examples); the spec text is '
                  'not vendored in this tree, so the reading was from memory of the published specification',
                  'Doc.ok (Comrak/Canon/Ok.lean) is an executable side condition; that it really excludes every ambiguity is what K tests '
                  '(write_lines_clean_canon proves the part the position theorem needs: no written line contains a line end or carriage return; the full write_lines_wf is not proved)'],
 'assumptions': ['default options plus the extensions strikethrough, table, tasklist, footnotes (needed by the constructs); footnote definitions are '
                 'one paragraph each, footnote names letters and digits; HTML blocks of start condition 6 only']}

TEXT = {'text_added': 'Also checked against an independently written rendering: one reference definition used 4..900 times (full, collapsed and shortcut form, label case variants, definition before or after the uses) with the total expansion below the cap - every use resolves. Every named character reference of HTML5 (2125 names, table copied from Python\'s html.entities into audit/html5_entities.tsv) is decoded in text and in a link title; fenced code whose content has a line of the other fence character or a shorter run of the same one.',
 'text': 'Proof + correspondence. Lean defines an inductive type Doc of canonical Markdown documents (paragraph, ATX and setext heading, thematic '
         'break, fenced and indented code, block quote, tight/loose bullet and ordered lists of any nesting; text with backslash escapes, '
         'named/numeric character references and multi-byte characters, code spans, emphasis, strong, GFM strikethrough, inline links with titles '
         'and reference links (definitions before or after use, label case variants, shadowed duplicate definitions), images, autolinks, hard and '
         'soft breaks, footnote references), an independent canonical writer Doc.write, the comrak AST the document spells (Doc.toTree), an independent reference '
         'renderer Doc.refHtml written from the specification, and a decidable side condition Doc.ok that makes the spelling unambiguous. '
         "Theorem refHtml_eq_renderHtml_canon: for EVERY d with Doc.ok d (any depth, tightness, start number, fence length) the complete model of "
         "comrak's HTML formatter applied to toTree d writes exactly refHtml d (mutual structural induction over blocks/items/inlines with the "
         'last_was_lf state threaded); shape_canon: toTree d satisfies the C04 shape predicate. Tie to the code on every run: the driver generates '
         'd from a PRNG (so the executed write/toTree/refHtml are the proved definitions); K: the real parse_document(write d), position-free, '
         'equals toTree d field for field, and for every node of a kind comrak documents as position-reliable (not lists / items) its real '
         'source position equals the line/column span Doc.toTreeP d computes from the writer\'s layout (toTreeP_erase_canon: toTreeP d is toTree d '
         'with positions filled in; unclaimed: indented code blocks, inlines of cells containing \\| - '
         'comrak\'s positions for these are off, C11/C12 findings); the driver evaluates the C11/C12 oracles (range, nesting, order, slice) on '
         'the claimed positions of every generated document (Doc.posOk) and positions_canon proves Doc.ok d -> Doc.posOk d for EVERY canonical document: every claimed position lies in write d, nests in its nearest reliable ancestor, follows its previous sibling, and denotes a slice with the bytes its kind requires (all clauses of sliceFail / sliceEndFail of Comrak/Sourcepos.lean), by structural induction over blocks / items / inlines / table rows and cells / footnote definitions on top of a line-table lemma for write d = joinLines (lines free of line ends: write_lines_clean_canon); S: the real markdown_to_html(write d) equals refHtml d. Known findings (each excluded from Doc.ok by a named clause, re-observed by directed probes and replays on every run): a blank '
         'line that follows a thematic break inside a list item is not registered when tightness is decided, so such a list is rendered tight '
         'where the specification says loose; a table without body rows inside a list item makes the list loose although no blank line is '
         'present (the consumed delimiter row is taken for a blank line); with the tasklist extension an item whose text merely reads "[x] a" '
         'after unescaping (written \\[x\\] a or &#91;x] a) is turned into a task item. Observation (not a finding, the spec leaves info strings '
         'open): an info string that is exactly "math" gets an extra data-math-style attribute with every extension off; excluded by Doc.ok, '
         'necessity shown by math_info_counterexample.',
 'note': 'Trusted: Lean kernel + standard axioms; harness/driver; the reading of the specification in Ref.lean; Doc.ok as the definition of '
         '"unambiguous canonical syntax".',
 'technique': 'Lean 4 theorems (formatter model on the spelled tree = independent reference renderer, by mutual structural induction) + '
              'generated-document differential correspondence (real parser vs toTree, real HTML vs refHtml)',
 'design_ref': 'DESIGN.md sections 5 and 7 (C03)'}
