"""Check configuration for C01 (loaded by checks_cfg.py)."""

ID = "C01"

PROP = {'lean_props': ['Comrak.Props.C01'],
 'lean_audit': ['Comrak.Audit.C01'],
 'required_theorems': ['shortestUnused_le_32',
                       'shortestUnused_total',
                       'shortestUnused_is_unused_partial',
                       'shortestUnused_old_diverges',
                       'spx_consume_total',
                       'spx_consume_verbatim',
                       'spx_consume_former_counterexample',
                       'entity_codepoint_no_overflow',
                       'hexval_no_underflow',
                       'normalizeCode_nonempty',
                       'chop_hashtags_total',
                       'remove_trailing_blank_lines_total',
                       'html_no_panic_of_shape',
                       'xml_no_panic_of_shape',
                       'cm_no_panic_of_shape'],
 'extra_profiles': ['dev'],
 'timeout_quick': 900,
 'timeout_thorough': 3000,
 'strength': 'partial (mechanisms): totality theorems for the functions the anchors name, each tied to the real function through a hook '
             '(model none <-> real panic); the rest of the program is reached only by the search stage, which always runs at full volume in '
             'isolated worker processes under both build profiles',
 'trusted_base': ['the worker/watchdog protocol of the harness (src/worker.rs): a case is charged with a crash or hang iff the worker '
                  'process died or stayed silent while that case was in flight (a hang is re-run alone with a tripled budget before it counts)',
                  'stack overflow is judged against an 8 MiB stack (the usual main-thread size); wall-clock budgets are 30-240 s per case',
                  'theorems about escape/escape_href (C19), tagfilter (C14) and the HTML renderer model (C10) are cited, not re-proved here'],
 'assumptions': ['inputs are valid UTF-8 (the API takes &str); hooks standing for &str are only fed valid UTF-8',
                 'Spx::consume is modelled over natural numbers (no usize wrap): positions of parsed text nodes are far below 2^63']}

TEXT = {'text_added': 'Also run: tables that reach the auto-completion cap (all renderers), container markers followed by a tab and the line end before lines that start with a multi-byte character.',
 'text': 'Proof (partial: per mechanism). Each function named by the anchors is modelled in Lean with every Rust panic site explicit (failed '
         'assert!/unreachable!/index/arithmetic overflow = none) and every loop structurally recursive or fuelled: the repaired '
         'shortest_unused_sequence (result in 1..=32, exits within 32 iterations, a result below 32 is really an unused run length and the '
         'shortest one; the pinned i32 version is kept as a witness: all 32 bits set => the loop never exits, a run of 32 trips the shift check), '
         "Spx::consume (total for EVERY queue that holds the requested bytes since the repair in /repo - the pinned assertion is gone, the split is "
         'kept within the element; exact and verbatim-preserving on verbatim segments), the code-point arithmetic of entity::unescape (no u32 overflow for any '
         'digit count, no underflow in the hex-digit formula), normalize_code (non-empty result on non-empty input, so format_code may read '
         'literal[0]), chop_trailing_hashtags and remove_trailing_blank_lines (total under their callers\' guards, counterexamples without). '
         'Formatter sites whose safety depends on where a node sits: on every tree that satisfies the C04 shape predicate and is rooted at a document, none of the context-dependent '
         'unwrap()/panic!/index sites of html.rs, xml.rs and cm.rs (enumerated as the predicates noPanicT, xmlNoPanicT, cmNoPanicT) can fire '
         '(html_no_panic_of_shape, xml_no_panic_of_shape, cm_no_panic_of_shape; proved in C04 by carrying the table geometry from the table node '
         'through its rows to their cells; that parsed trees satisfy the shape predicate is decided by C04\'s search). Tie to the code: every model is compared with the real function through cfg(comrak_verif) hooks on exhaustive short and random boundary '
         'inputs (model none <-> real panic). Search (always full volume, release and debug-assertion builds): isolated worker processes with a '
         'wall-clock watchdog run parse + HTML + CommonMark + XML under random option vectors on random/mutated/corpus documents, every '
         'backtick run length 1..100 in code spans, deep-nesting / long-run families up to 10^5 (quick) / 10^6 (thorough) repetitions, and lists '
         'nested 5 000 to 20 000 levels across lines on a 512 KiB stack; the oracle is normal exit, no panic, valid UTF-8 output. The defects this '
         'search found on the pinned tree (Spx assertion on a footnote label holding an e-mail address; stack overflow in the recursive footnote '
         'passes and in the recursive e-mail autolink pass; prefix underflow in the CommonMark writer; endless loop / shift overflow in '
         'shortest_unused_sequence; tagfilter index) were all repaired in /repo and are kept as replays.',
 'note': 'Trusted: Lean kernel + standard axioms; harness, worker protocol and hook wrappers; the unmodelled rest of the parser is covered by search only.',
 'technique': 'Lean 4 totality theorems per mechanism (explicit failure values, fuel) + differential correspondence through cfg(comrak_verif) hooks '
              '+ crash/hang search in isolated processes under release and debug-assertion builds',
 'design_ref': 'DESIGN.md section 7, C01'}
