"""Check configuration for C12 (loaded by checks_cfg.py)."""

ID = "C12"

PROP = {'lean_props': ['Comrak.Props.C12', 'Comrak.Props.C11C12Canon'],
 'lean_audit': ['Comrak.Audit.C12'],
 'required_theorems': ['slice_length',
                       'slice_is_infix',
                       'contentMap_exact',
                       'contentMap_total',
                       'makeInline_in_line',
                       'makeInline_matches_contentMap',
                       'canon_positions_denote_their_text'],
 'strength': 'partial: the content map of a leaf block is exact (no partially consumed tab) and make_inline turns a content index into the '
             '1-based byte column of the source byte the map names; slices are contiguous parts of the source of the stated length. On the canonical class of C03 every claimed position '
             'denotes the bytes its kind requires, for every document (canon_positions_denote_their_text; C03\'s correspondence ties those '
             'positions to the real parser\'s). The rest of '
             'the parser (which runs become which nodes, delimiter spans, tables, autolinks) is reached by the search stage only, always at full '
             'volume; defects found on the pinned tree are listed findings.',
 'trusted_base': ['sliceFail in Comrak/Sourcepos.lean is the reading of "starts and ends on the construct\'s own delimiters or content" per kind; '
                  'a text node counts as copied verbatim when its slice has no backslash, ampersand or NUL and its literal has no smart-punctuation '
                  'output or U+FFFD; table cells may contain `\\|`, `||` and the scanner\'s apostrophe-pipe pairs',
                  'failure classes (sig) are computed by the harness from the source text and tree shape around the failing node '
                  '(harness/src/spk.rs classify); a failure that matches no listed construct is shrunk and re-classified on the minimal document'],
 'assumptions': ['documents are valid UTF-8 (Rust &str)', 'NUL is kept out of the generator (the property excludes it for the literal clause)',
                 'parser panics are C01\'s subject and are counted as skipped here']}

TEXT = {'text_added': "The generator also writes tabs where it wrote spaces in line prefixes (after `>`, as indentation), consistently over a document; a failure on a paragraph continuation line that carries its single container's prefix, or in a table whose lines share one prefix inside a single container, is not part of the listed tab class. Schemes with an autolink trigger character inside (news://, twitter://) are in the vocabulary.",
 'text': 'Proof + search. slice/sliceFail (Comrak/Sourcepos.lean) are Lean definitions executed by the driver on every node of the real tree: '
         'a verbatim text node\'s slice must equal its literal; code spans, emphasis, strong, strikethrough, links, images, autolinks, headings, '
         'fenced code, block quotes, thematic breaks and table cells must start and end on their own delimiters or content. Lean proves that a '
         'slice is a contiguous part of the source of the stated length, that the content of a leaf block maps byte for byte to the source lines '
         'from their recorded offsets (contentMap_exact, total on the content), and that make_inline computes exactly the 1-based byte column of '
         'the byte the content map names (so a verbatim run sliced at its reported position is its literal). The search stage runs at full volume '
         'on every check; defect classes of the pinned tree are listed in known_findings.json with replays; anything else is a VIOLATION.',
 'note': 'Trusted: Lean kernel + standard axioms; harness/driver; the classification of failures into listed syntactic classes. The theorems do '
         'not cover the whole parser (strength: partial).',
 'technique': 'Lean 4 theorems about the slice oracle, the content map and make_inline + full-volume oracle search on the real parser + '
              'known-finding classification by syntactic class',
 'design_ref': 'DESIGN.md section 7, C11/C12'}
