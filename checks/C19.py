"""Check configuration for C19 (loaded by checks_cfg.py)."""
from checks_common import HTML_TB  # noqa: F401

ID = "C19"

PROP = {'lean_props': ['Comrak.Props.C19'],
 'lean_audit': ['Comrak.Audit.C19'],
 'required_theorems': ['escape_append',
                       'escapeHref_append',
                       'escape_no_active',
                       'escapeHref_alphabet',
                       'unescapeText_escape',
                       'escape_injective',
                       'hrefDecode_escapeHref_partial'],
 'strength': "full for the text escaper and the tag writer; href escaper: injectivity refuted (by design), proved on inputs without '%'",
 'assumptions': ['io::Write error paths are not modelled (writers are Vec<u8>)']}

TEXT = {'text': 'Proof. escape/escape_href/write_opening_tag are modelled completely (per-byte specification and loop-shaped forms); homomorphism, '
         'no-active-character, output alphabet and the decoder round trip are Lean theorems for every byte string. The literal round trip of the '
         "href escaper is refuted by a Lean witness (by design: '%' is in the safe set) and recorded as a known finding; injectivity is proved on "
         "inputs without '%'. The model is tied to the code by byte-equality on all 65793 strings of length <= 2 plus random longer strings and "
         'attribute lists on every run.',
 'note': 'Trusted: Lean kernel + {propext, Classical.choice, Quot.sound}; the correspondence harness and the Lean driver; io::Write never fails (Vec '
         'sink).',
 'technique': 'Lean 4 theorems (induction over byte lists, decide +kernel over the 256 byte values) + exhaustive/random differential correspondence '
              'against the real functions',
 'design_ref': 'DESIGN.md section 7, C19'}
