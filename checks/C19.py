"""Check configuration for C19 (loaded by checks_cfg.py)."""
from checks_common import HTML_TB  # noqa: F401

ID = "C19"

PROP = {'lean_props': ['Comrak.Props.C19'],
 'lean_audit': ['Comrak.Audit.C19'],
 'required_theorems': ['escape_append',
                       'escapeHref_append',
                       'escape_no_active',
                       'escapeHref_alphabet',
                       'unescapeText_escape',
                       'escape_injective',
                       'hrefDecode_escapeHref_partial',
                       'hrefDecode_escapeHref_noPctEscape',
                       'escapeHref_injective_noPctEscape',
                       'openTag_complete',
                       'escapeHref_decode_equiv'],
 'strength': "full for the text escaper and the tag writer (openTag_complete: for valid names and arbitrary values the recogniser reads back exactly "
             "one complete start tag with the same name and values; raw-name counterexample); href escaper: literal injectivity refuted (by design), "
             "proved on inputs in which no '%' is followed by two hex digits (escapeHref_injective_noPctEscape; the class without any '%' is inside it, and "
             "one '%XY' is enough for a collision), and for every byte string the escaped form decodes (entities, then percent) to the percent-decoding of "
             "the input (escapeHref_decode_equiv); length bounds are C06.escape_len / escapeHref_len",
 'assumptions': ['io::Write error paths are not modelled (writers are Vec<u8>)']}

TEXT = {'text_added': 'Exhaustive over runs: every length 0..160 (0..700 for two fills) of seven kinds of escaped bytes x nine followers x two prefixes, through both escapers (bytes, alphabet, decode, concatenation).',
 'text': 'Proof. escape/escape_href/write_opening_tag are modelled completely (per-byte specification and loop-shaped forms); homomorphism, '
         'no-active-character, output alphabet and the decoder round trip are Lean theorems for every byte string. The literal round trip of the '
         "href escaper is refuted by a Lean witness (by design: '%' is in the safe set) and recorded as a known finding; injectivity is proved on "
         "inputs in which no '%' is followed by two hex digits (any number of other '%'), so the only collisions are with text already reading as a percent escape, and for every byte string entity-decoding then percent-decoding the output equals percent-decoding the input "
         "(nothing is lost up to percent-decoding; the swapped decoder order is refuted). The tag writer: for a valid element name, valid "
         "attribute names and arbitrary values, the start-tag recogniser accepts the written bytes as exactly one complete start tag and returns "
         "the same name and values (openTag_complete), so the writer is injective; raw names are the caller's obligation (counterexample). "
         "The model is tied to the code by byte-equality on all 65793 strings of length <= 2 plus random longer strings and "
         'attribute lists on every run.',
 'note': 'Trusted: Lean kernel + {propext, Classical.choice, Quot.sound}; the correspondence harness and the Lean driver; io::Write never fails (Vec '
         'sink).',
 'technique': 'Lean 4 theorems (induction over byte lists, decide +kernel over the 256 byte values) + exhaustive/random differential correspondence '
              'against the real functions',
 'design_ref': 'DESIGN.md section 7, C19'}
