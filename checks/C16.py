"""Check configuration for C16 (loaded by checks_cfg.py)."""

ID = "C16"

PROP = {'lean_props': ['Comrak.Props.C16'],
 'lean_audit': ['Comrak.Audit.C16'],
 'required_theorems': ['cli_matches_documentation',
                       'gfm_bundle',
                       'gfm_is_shorthand',
                       'extension_on_iff',
                       'mergeConfig_eq_append',
                       'formatter_choice',
                       'sink_choice',
                       'inputs_concatenated',
                       'cli_renders_library',
                       'failure_leaves_no_output'],
 'strength': 'full for the flag-to-option wiring (every value of the Cli record), formatter/sink selection, input concatenation and the '
             'failure paths; the config-file splice is proved for every argument list (mergeConfig_eq_append: process arguments as they are, '
             'then the config words; the pinned index splice, which dropped non-Unicode arguments or panicked, is kept as mergeConfigOld with '
             'its two counterexamples and was repaired in /repo)',
 'timeout_quick': 900,
 'timeout_thorough': 3000,
 'trusted_base': ["clap's own parsing beyond the fragment modelled in parseArgs (long/short names, --name=value, -e a,b, repeated -e, --, "
                  'duplicate and conflict rejection), shell_words::split (the harness writes config files in five quoting styles and tells '
                  'the model the intended words; a wrong split shows as a correspondence disagreement), and syntect are trusted libraries',
                  'the harness links comrak with its syntect feature: with the highlighter on, the expected HTML is the library\'s with a '
                  'SyntectAdapter of the same theme (half of those runs keep their code blocks, top-level and nested); syntect itself is trusted',
                  'the library side of the model (Lib.render / Lib.validUtf8) is abstract in Lean and instantiated by in-process calls of '
                  'the real library in the harness',
                  'cargo (the harness shells out to `cargo build --offline --bin comrak` in /repo, target dir /verif/work/cli-target) and '
                  'the operating system process / file interface used to observe the binary'],
 'assumptions': ['clap parsing is modelled for valid-Unicode arguments; non-Unicode file arguments are exercised on the real binary (with and without a config file) against the library',
                 "default build of the binary (features cli + syntect + bon; `shortcodes` off, so README's --gemojis does not exist)",
                 "`--` is used only when no config file is read: words spliced in after `--` are file names by clap's rules (the model "
                 'predicts that too; compared in K only)',
                 'a flag given on the command line and again in the config file is rejected by clap (exit 2): outside the quantifier '
                 '(subsets split between the two), compared with the model only']}

TEXT = {'text': 'Proof. The clap record of src/main.rs is a Lean structure with one field per flag/value; cliToOptions transcribes the three builder '
         'chains field by field (every `|| cli.gfm`), documented is written from the help text alone (each flag turns on the option its help '
         'line names starting from Options::default(); --gfm is expanded into the seven things its help line lists). Lean proves '
         'cliToOptions c = documented c for every record c (2^17 flag settings x any extension list x any values), that --gfm is exactly '
         'shorthand for its bundle, that an extension is on iff named or in the bundle, that the config-file splice by index equals '
         'appending the words after the real arguments (Unicode arguments), formatter/highlighter/sink selection (--inplace forces '
         'CommonMark and rewrites the single file; syntect only for HTML with a theme other than ""/none), that the parser receives the '
         'concatenation of the files in order, that a valid run delivers exactly render(documented c, format, concatenation) to the chosen '
         'sink with exit 0, and that every failing run (exit 1 invalid UTF-8, 3 unreadable file, 4 in-place file count) has a message, empty '
         'stdout and writes no file. Tie to the code: on every check the real binary is rebuilt from the working tree and run hermetically '
         'on the empty set, all 39 single flags/extension names/valued options, all 741 pairs and random larger subsets, crossed with '
         'html/xml/commonmark x {stdin, one file, several files cut at arbitrary byte offsets} x {stdout, --output, --inplace} x seven '
         'config-file situations (quoted in five shell styles) x four highlighter settings; exit status, stdout and every file of the case '
         'directory are compared (K) with the Lean model run by the driver - parseArgs, cliWithConfig, cliToOptions, chosen*, execute - whose '
         "option vector is turned into real library options for in-process rendering, and (S) with the documented mapping transcribed by "
         'name in the harness. Invalid UTF-8 (also split across files), missing files and a directory as input: non-zero exit, message, '
         'empty stdout, no file touched. Rejected command lines (duplicates, conflicts, bad values, unbalanced config quotes) are compared '
         'with the model exit codes.',
 'note': 'Trusted: Lean kernel + standard axioms; harness/driver; clap, shell-words, syntect, cargo. Found on the pinned tree and '
         'repaired in /repo: a non-Unicode file argument was dropped (or the process panicked) when a config file was read; the '
         'ill-formed-tree defect of C04 (Escaped containment) seen through --escaped-char-spans with --experimental-minimize-commonmark.',
 'technique': 'Lean 4 theorems (record extensionality + Boolean algebra for the wiring, list induction for the splice and the input '
              'concatenation, case analysis for formatter/sink/exit codes) + differential correspondence of the real binary, rebuilt on '
              'every run, against the executable model and in-process library calls',
 'design_ref': 'DESIGN.md section 7, C16'}
