"""Check configuration for C14 (loaded by checks_cfg.py)."""
from checks_common import HTML_TB  # noqa: F401

ID = "C14"

PROP = {'lean_props': ['Comrak.Props.C14'],
 'lean_audit': ['Comrak.Audit.C14'],
 'required_theorems': ['tagfilter_eq_spec',
                       'tagfilterBlock_eq_rewriteSpec',
                       'tagfilter_formfeed_filtered',
                       'no_disallowed_survives',
                       'tagfilterBlock_local',
                       'disallowed_neutralised_in_context',
                       'no_disallowed_survives_partial',
                       'inline_filtered_iff',
                       'block_filtered',
                       'unfiltered_verbatim'],
 'strength': 'full: tagfilter l = disallowedAt l (the GFM rule with the HTML tokenizer\'s white space) for every literal, tagfilter_block = rewriteSpec '
             'for every literal, and "no such tag survives in an HTML block" as a theorem about the output itself (survivorsH (tagfilterBlock l) = 0 for '
             'every literal; the driver\'s survivors counter is proved equal to survivorsH); locality: the filter carries no state across a less-than sign '
             '(tagfilterBlock (p ++ < t) = tagfilterBlock p ++ tagfilterBlock (< t)), so no quote, comment or open-tag context switches it off. The form-feed gap of the pinned tree was repaired in /repo.',
 'trusted_base': ["recursive renderT/renderF stand for comrak's explicit work-stack traversal (exercised by the correspondence on deep and wide "
                  'trees, not proved)',
                  'anchor normalisation (Unicode lower-casing / category filter) is a parameter of the model; the harness supplies the real '
                  "Anchorizer's value per heading text",
                  'Unicode lower-casing in tagfilter is modelled as ASCII lower-casing (only U+212A and U+0130 lower-case to an ASCII-initial '
                  'string; no blacklisted name can be completed through them); both characters are in the correspondence alphabet'],
 'assumptions': ['raw HTML literals are valid UTF-8 (they are Rust Strings); the hook wrappers are only fed valid UTF-8']}

TEXT = {'text': 'Proof. tagfilter and tagfilter_block are modelled with every index explicit; an independent specification of the GFM disallowed-raw-HTML '
         'rule (disallowedAt, rewriteSpec) is written from the prose. Lean proves for every literal that the filter decides exactly that rule (white space = tab, LF, FF, CR, space), that '
         "tagfilter_block rewrites exactly the '<' at disallowed positions and nothing else, and that the render cascade writes '&lt;'+rest / the "
         'rewritten block / the verbatim literal accordingly. '
         "That no disallowed tag survives is proved on the output: a rewritten '<' leaves no '<' behind, and the decision at a kept '<' reads only "
         "'/', name letters, one delimiter byte and possibly '>', so rewriting later '<' to '&lt;' cannot change it (no_disallowed_survives). "
         'The pinned tree\'s index panic on literals like "<xmp" is repaired (fix: commit) and '
         'kept as a Lean witness; form feed as a tag-name delimiter was missing on the pinned tree (the isspace of comrak has no FF) and is repaired too (tagfilter_formfeed_filtered). Tie to the code: the '
         "real tagfilter/tagfilter_block (hook) equal the model on all strings of length <= 3 (quick) / 4 (thorough) over the property's 23-symbol "
         'alphabet in three letter cases, on every name x cut x delimiter x case mask, on random longer literals and on every raw literal of '
         'generated documents; whole documents with tagfilter on/off are byte-equal to the model rendering; and the two renderers are checked against the rule itself (written once more in Rust) on single-node trees - every literal as inline HTML in a paragraph and as an HTML block of every block type - so that a change in how the renderers call the filter is reported with the literal that shows it.',
 'note': 'Trusted: Lean kernel + standard axioms; harness/driver/hook wrappers; ASCII vs Unicode lower-casing argument.',
 'technique': 'Lean 4 theorems (model = independent GFM spec, by list induction and a uniqueness argument over the 9-name blacklist) + '
              'exhaustive/structured differential correspondence through cfg(comrak_verif) hooks',
 'design_ref': 'DESIGN.md section 7, C14'}
