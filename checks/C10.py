"""Check configuration for C10 (loaded by checks_cfg.py)."""
from checks_common import HTML_TB  # noqa: F401

ID = "C10"

PROP = {'lean_props': ['Comrak.Props.C10'],
 'lean_audit': ['Comrak.Audit.C10'],
 'required_theorems': ['enter_leaves_opened', 'exit_closes_closing', 'html_balanced', 'html_balanced_of_shape',
                       'lex_spell', 'html_void_discipline', 'balanced_tokens_balanced_bytes', 'html_balanced_bytes_partial',
                       'balancedBytes_imp_core', 'html_footnote_section_once_bytes', 'html_table_sections',
                       'flagged_tokens_balanced_bytes', 'html_balanced_bytes'],
 'strength': 'full at token level for every tree with balShapeT (implied by Shape), all options; at byte level proved in safe mode '
             '(unsafe_ = false) for the COMPLETE run-time oracle balancedBytes (html_balanced_bytes: lexes completely, tag stack balanced, '
             'void elements self-closed and only they, thead/tbody only directly under table and at most once per table, footnote section '
             'at most once); the thead/tbody clause is now proved (html_table_sections), no clause of the oracle is left to testing in safe mode',
 'trusted_base': ['token spelling: K compares spell(renderToks) with the real bytes; the step from token balance to byte balance is proved '
                  '(lex_spell: lexHtml (spell ts) = some (toL ts) for allowed tokens; html_balanced_bytes: balancedBytes (renderHtml o nt t) = ok) '
                  'for safe mode and the full oracle balancedBytes, including its thead/tbody-once-under-table clause (html_table_sections, on the '
                  'flagged stack machine runO) and its footnote-section-once clause; html_balanced_bytes_partial (core oracle) is subsumed; with '
                  'unsafe_ = true (raw HTML passed through) byte-level balance is checked by running the oracle on the real output, not proved'],
 'assumptions': ['plugins and URL rewriters are outside the model',
                 "that every parsed tree satisfies balShapeT is checked on every parsed tree of the run (it is C04's subject)"]}

TEXT = {'text_added': 'Documents whose rendering exceeds an I/O buffer (9..21 kB concatenations) are included, and markdown_to_html must return the bytes of parse + format_html.',
 'text': "Proof. html.rs's format_node_default is modelled completely at token level (41 node kinds, all options, footnote and table bookkeeping). "
         'Lean proves, for every option vector and every tree of any depth/width whose rows sit under tables with a unique leading header row and '
         'whose footnote definitions sit under the document or another definition (balShapeT, implied by Shape), that the emitted tag events are '
         'balanced and nothing is left open (html_balanced), via per-node pairing lemmas for all kinds. The model is tied to the code by '
         'byte-equality of real format_html output with the spelled model tokens on generated documents x random option vectors on every run; the '
         'byte-level tag-stack oracle (Lean lexer + stack machine, incl. thead/tbody/footnote-section once) is also run on the real output. '
         'Token level and byte level are connected in Lean: the byte lexer provably inverts the spelling of every allowed token list (lex_spell), '
         'every start tag written is non-void and every self-closed tag void (html_void_discipline), hence for unsafe_ = false the rendered '
         'bytes pass the core of the oracle (html_balanced_bytes_partial; balancedBytes_imp_core shows the core is the oracle minus the '
         'section-once clauses) and contain the footnote section start tag at most once (html_footnote_section_once_bytes). The remaining '
         'clause is now proved too: the tag events of the rendered document run against the oracle\'s flagged stack (table entries remember '
         'whether thead/tbody were opened) succeed and leave nothing open (html_table_sections, a second mutual induction over Tree/Forest: '
         'only a table row writes thead/tbody, every other token list acts on the flagged stack as on the name stack), so for unsafe_ = false '
         'the rendered bytes pass the complete oracle balancedBytes (html_balanced_bytes, same hypotheses as the partial theorem, which it '
         'subsumes); html_balanced_bytes_needs_shape shows the header-row-first part of balShapeT is needed (thead twice otherwise).',
 'note': 'Trusted: Lean kernel + standard axioms; harness/driver; recursive traversal stands for the explicit work stack; token-to-byte lexing step '
         'is proved for safe mode and the complete oracle balancedBytes incl. thead/tbody-once-under-table and footnote-section-once (unsafe mode: exercised only); balShapeT of parsed trees is checked per run, proved nowhere (C04).',
 'technique': 'Lean 4 theorem by mutual structural induction over Tree/Forest with per-kind pairing lemmas + differential correspondence (byte-equal '
              'HTML) + lexer/stack oracle on real output',
 'design_ref': 'DESIGN.md section 7, C10'}
