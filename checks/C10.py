"""Check configuration for C10 (loaded by checks_cfg.py)."""
from checks_common import HTML_TB  # noqa: F401

ID = "C10"

PROP = {'lean_props': ['Comrak.Props.C10'],
 'lean_audit': ['Comrak.Audit.C10'],
 'required_theorems': ['enter_leaves_opened', 'exit_closes_closing', 'html_balanced', 'html_balanced_of_shape'],
 'strength': 'full at token level for every tree with balShapeT (implied by Shape); byte level by the lexer oracle on real output',
 'trusted_base': ['token spelling: K compares spell(renderToks) with the real bytes; the step from token balance to byte balance (lexHtml o spell) '
                  'is checked by running the byte-level oracle on the real output, not proved'],
 'assumptions': ['plugins and URL rewriters are outside the model',
                 "that every parsed tree satisfies balShapeT is checked on every parsed tree of the run (it is C04's subject)"]}

TEXT = {'text': "Proof. html.rs's format_node_default is modelled completely at token level (41 node kinds, all options, footnote and table bookkeeping). "
         'Lean proves, for every option vector and every tree of any depth/width whose rows sit under tables with a unique leading header row and '
         'whose footnote definitions sit under the document or another definition (balShapeT, implied by Shape), that the emitted tag events are '
         'balanced and nothing is left open (html_balanced), via per-node pairing lemmas for all kinds. The model is tied to the code by '
         'byte-equality of real format_html output with the spelled model tokens on generated documents x random option vectors on every run; the '
         'byte-level tag-stack oracle (Lean lexer + stack machine, incl. thead/tbody/footnote-section once) is also run on the real output.',
 'note': 'Trusted: Lean kernel + standard axioms; harness/driver; recursive traversal stands for the explicit work stack; token-to-byte lexing step '
         'is exercised, not proved; balShapeT of parsed trees is checked per run, proved nowhere (C04).',
 'technique': 'Lean 4 theorem by mutual structural induction over Tree/Forest with per-kind pairing lemmas + differential correspondence (byte-equal '
              'HTML) + lexer/stack oracle on real output',
 'design_ref': 'DESIGN.md section 7, C10'}
