"""Check configuration for C02 (loaded by checks_cfg.py)."""
from checks_common import HTML_TB

ID = "C02"

PROP = {
    'lean_props': ['Comrak.Props.C02'],
    'lean_audit': ['Comrak.Audit.C02'],
    'required_theorems': ['html_safe', 'raw_html_only_placeholder', 'raw_html_escaped_when_escape',
                          'no_dangerous_destination', 'dangerous_invariant_under_escapeHref', 'allowed_value_cannot_break_out',
                          'dangerous_invariant_under_escapeHref_decoded', 'html_destinations_safe', 'safe_tokens_safe_bytes',
                          'html_safe_bytes'],
    'strength': 'full at token level and at byte level (html_safe_bytes: safeBytes (renderHtml o nt t) = ok) for every tree whose nodes '
                'are nodeSafe and every option vector with unsafe_ = false; the byte oracle is also run on the real output',
    'trusted_base': HTML_TB + [
        "dangerous_url is a hand model of the re2c-generated scanner (four case-insensitive schemes, data:image/{png,gif,jpeg,webp} excepted); "
        "it is tied through the renderer correspondence on hostile URLs, not by enumeration",
        "token spelling: K compares spell(renderToks) with the real bytes; that the byte oracle accepts the spelled tokens is proved "
        "(lex_spell, safe_tokens_safe_bytes, html_safe_bytes) and additionally exercised on real output",
    ],
    'assumptions': [
        'no user plugins / URL rewriters (excluded by the property)',
        'the header_ids prefix is application configuration written raw by the code: the theorem assumes it is attribute-safe, the generator uses safe prefixes',
        'NormSafe: the anchor normaliser (Unicode tables, outside the model) only yields letters, marks, numbers, connector punctuation and "-"',
        'treeSafe of every parsed tree (no Raw node, EscapedTag payload harmless, heading level 1-6) is checked on every tree of the run',
    ],
}

TEXT = {
    'text': "Proof. With the complete token-level model of html.rs, Lean proves for every option vector with unsafe_ = false, every "
            "normalisation table with attribute-safe values and every tree of any depth whose nodes are nodeSafe (no Raw node, harmless "
            "EscapedTag payload, heading level 1-6) that every emitted token is comrak's own markup (html_safe: tag and attribute names from "
            "the fixed vocabulary, attribute values built only from escape/escape_href output and harmless literals, document text only as "
            "escaped text, raw HTML only as the omission placeholder or as escaped text under `escape`), that such attribute values cannot "
            "contain a quote or angle bracket (via the C19 theorems), that escape_href preserves the verdict of dangerous_url, and that "
            "no href/src destination matched by the dangerous-scheme rule is ever written. Tie to the code: byte-equality of real "
            "format_html output with the spelled model tokens on generated documents (hostile payloads in every string position) and "
            "directly built trees x random option vectors on every run; the byte-level oracle (Lean lexer + vocabulary + escaping + "
            "destination check) is run on the real output. Token level and byte level are connected in Lean: the byte lexer provably "
            "inverts the spelling of allowed tokens, spelled values and text are in the oracle's safe value language, escape_href "
            "followed by entity decoding preserves the dangerous_url verdict, every href/src value written decodes to a "
            "non-dangerous URL (html_destinations_safe), hence safeBytes accepts the rendered bytes (html_safe_bytes).",
    'note': 'Trusted: Lean kernel + standard axioms; harness/driver; hand model of the dangerous_url scanner; recursive traversal for the '
            'work stack; token-to-byte lexing proved (html_safe_bytes) and exercised; treeSafe/NormSafe/prefix hypotheses checked per run or assumed as stated.',
    'technique': 'Lean 4 theorem by mutual structural induction over Tree/Forest with per-kind lemmas + differential correspondence '
                 '(byte-equal HTML) + lexer/vocabulary oracle on real output',
    'design_ref': 'DESIGN.md section 7, C02',
}
