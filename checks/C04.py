"""Check configuration for C04 (loaded by checks_cfg.py)."""
from checks_common import HTML_TB  # noqa: F401

ID = "C04"

PROP = {
    'lean_props': ['Comrak.Props.C04'],
    'lean_audit': ['Comrak.Audit.C04'],
    'required_theorems': ['shape_validate', 'table_noPanic', 'cell_noPanic', 'row_completion_length', 'shape_gives_balanced_html'],
    'strength': 'partial: the Shape predicate, its consequences and the small mechanisms are theorems; that every parsed tree satisfies '
                'Shape is decided by evaluating the Lean predicate on real parser output (the block/inline parser is not modelled)',
    'trusted_base': ["the containment table canContain is hand-written and compared with nodes::can_contain_type on all 41 x 41 kind pairs on every run (exhaustive)",
                     "arena_tree link consistency is walked through the public accessors on every parsed tree; the link-array model of arena_tree's mutators planned in DESIGN.md is not built"],
    'assumptions': ['ShortCode is feature-gated off in the default build and not part of the model'],
}

TEXT = {
    'text': "Proof (partial) + evaluation of the proved predicate on real parser output. Shape (containment table on every edge, placement of "
            "rows/cells/footnote definitions/documents, table geometry, heading level) is an executable Lean predicate; Lean proves that it "
            "implies the library validator's verdict (shape_validate), that it makes the formatter's unwrap/index sites safe (table_noPanic, "
            "cell_noPanic, paragraph_noPanic) and the HTML balanced for every option vector (via C10), and the parser's row-completion and "
            "heading-level mechanisms. The containment table is tied to nodes::can_contain_type exhaustively on every run. Whether every "
            "parsed tree satisfies Shape is a statement about the whole parser, which is not modelled: it is decided per run by evaluating "
            "Shape, the real validate() (which must agree with the Lean validateT) and a parent/child/sibling link walk on the trees the real "
            "parser builds for generated documents x random extension/parse option vectors with the pairs the property names over-weighted. "
            "The pinned tree's defect (Escaped / EscapedTag rejected by the containment table under escaped_char_spans and in table cells) was "
            "re-established by this check and repaired by a fix: commit.",
    'note': 'Trusted: Lean kernel + standard axioms; harness/driver. The universal claim over all documents rests on search, not proof.',
    'technique': 'Lean 4 theorems about the shape predicate and mechanisms + exhaustive table correspondence + evaluation of the Lean '
                 'predicate on real parser output',
    'design_ref': 'DESIGN.md section 7, C04',
}
