"""Check configuration for C04 (loaded by checks_cfg.py)."""
from checks_common import HTML_TB  # noqa: F401

ID = "C04"

PROP = {
    'lean_props': ['Comrak.Props.C04', 'Comrak.Props.C04Arena'],
    'lean_audit': ['Comrak.Audit.C04'],
    'required_theorems': ['shape_validate', 'table_noPanic', 'cell_noPanic', 'row_completion_length', 'shape_gives_balanced_html',
                          'shape_imp_noPanic', 'xml_no_panic', 'cm_no_panic',
                          'links_fresh', 'links_preserved_detach', 'links_preserved_append', 'links_preserved_prepend',
                          'links_preserved_insertAfter', 'links_preserved_insertBefore', 'children_detach', 'children_append',
                          'children_prepend', 'children_insertAfter', 'children_insertBefore', 'children_append_detached',
                          'next_prev', 'prev_next', 'first_child_ok', 'last_child_ok',
                          'acyclic_fresh', 'acyclic_preserved_detach', 'acyclic_preserved_append', 'acyclic_preserved_prepend',
                          'acyclic_preserved_insertAfter', 'acyclic_preserved_insertBefore'],
    'strength': 'partial: the Shape predicate, its consequences and the small mechanisms are theorems; that every parsed tree satisfies '
                'Shape is decided by evaluating the Lean predicate on real parser output (the block/inline parser is not modelled). '
                'Link clause: arena_tree is modelled link by link (ArenaTree.lean) and Lean proves that detach/append/prepend/insert_after/'
                'insert_before each preserve the invariant Links (first/last child, next/previous sibling and parent links represent the '
                'child lists, no list repeats a node) under their operand conditions, starting from Node::new nodes (links_fresh), and what '
                'each does to the child lists; that no node becomes its own ancestor is the separate invariant Acyclic, preserved by each mutator when '
                'the new child is neither the new parent nor one of its ancestors (acyclic_preserved_*; counterexample theorems show the '
                'operand conditions are needed)',
    'trusted_base': ["the containment table canContain is hand-written and compared with nodes::can_contain_type on all 41 x 41 kind pairs on every run (exhaustive)",
                     "the link-array model (ArenaTree.lean: five Option links per node, the five mutators statement by statement) is hand-written from arena_tree.rs and compared with the real comrak::arena_tree::Node on random operation sequences, complete link dump after every operation, on every run; that the parser touches the links only through these five mutators is by reading (the link cells are private to arena_tree.rs)",
                     "arena_tree link consistency is also walked through the public accessors on every parsed tree"],
    'assumptions': ['ShortCode is feature-gated off in the default build and not part of the model'],
}

TEXT = {
    'text': "Proof (partial) + evaluation of the proved predicate on real parser output. Shape (containment table on every edge, placement of "
            "rows/cells/footnote definitions/documents, table geometry, heading level) is an executable Lean predicate; Lean proves that it "
            "implies the library validator's verdict (shape_validate), that it makes the formatters' unwrap/panic/index sites safe at every node of a whole tree rooted at a document "
            "(shape_imp_noPanic for html.rs, xml_no_panic for xml.rs, cm_no_panic for cm.rs given non-empty code literals; per node: table_noPanic, "
            "cell_noPanic, paragraph_noPanic) and the HTML balanced for every option vector (via C10), and the parser's row-completion and "
            "heading-level mechanisms. The containment table is tied to nodes::can_contain_type exhaustively on every run. Whether every "
            "parsed tree satisfies Shape is a statement about the whole parser, which is not modelled: it is decided per run by evaluating "
            "Shape, the real validate() (which must agree with the Lean validateT) and a parent/child/sibling link walk on the trees the real "
            "parser builds for generated documents x random extension/parse option vectors with the pairs the property names over-weighted. "
            "The parent/child/sibling link clause additionally has a proof: a link-array model of arena_tree whose five mutators are "
            "proved to preserve the link invariant (links_preserved_*) and to act on child lists as the obvious list operations (children_*); "
            "the model is tied to the real arena_tree by random operation sequences with the full link dump compared after every step. "
            "The pinned tree's defect (Escaped / EscapedTag rejected by the containment table under escaped_char_spans and in table cells) was "
            "re-established by this check and repaired by a fix: commit.",
    'note': 'Trusted: Lean kernel + standard axioms; harness/driver. The universal claim over all documents rests on search, not proof.',
    'technique': 'Lean 4 theorems about the shape predicate and mechanisms + invariant-preservation theorems for a link-array model of '
                 'arena_tree with operation-sequence correspondence + exhaustive table correspondence + evaluation of the Lean '
                 'predicate on real parser output',
    'design_ref': 'DESIGN.md section 7, C04',
}
