"""Check configuration for C18 (loaded by checks_cfg.py)."""
from checks_common import HTML_TB  # noqa: F401

ID = "C18"

PROP = {'lean_props': ['Comrak.Props.C18'],
 'lean_audit': ['Comrak.Audit.C18'],
 'required_theorems': ['enter_sourcepos_only_adds', 'exit_sourcepos_only_adds', 'exit_independent_of_sourcepos', 'html_sourcepos_only_adds',
                       'xml_sourcepos_only_adds', 'xml_sourcepos_only_adds_bytes', 'cm_ignores_sourcepos', 'cm_ignores_positions'],
 'strength': 'full for HTML and XML at token level (whole trees, every option vector; XML also as bytes through spellXml) and structural for '
             'CommonMark (its option record has no such field and the formatter never reads a position); the parser by the on/off oracle on real output',
 'trusted_base': ["recursive renderT/renderF stand for comrak's explicit work-stack traversal (exercised by the correspondence on deep and wide "
                  'trees, not proved)',
                  'anchor normalisation (Unicode lower-casing / category filter) is a parameter of the model; the harness supplies the real '
                  "Anchorizer's value per heading text"],
 'assumptions': ['the on/off oracle compares strip(on) with strip(off), so a literal data-sourcepos attribute inside passed-through raw HTML is not '
                 'blamed on the option',
                 'XML: the verbatim payload of an EscapedTag node (XAttr.raw) is document data and is not touched by the erasure',
                 'CommonMark: the model Cm.renderCm takes a record without a sourcepos field; that cm.rs reads no other option is tied by the '
                 'C17/C07 correspondence of that model, and decided here by the on/off oracle on real output']}

TEXT = {'text': "Proof. For the complete token-level model of html.rs, Lean proves for every option vector, normalisation table and tree of any depth and width that erasing the data-sourcepos attributes from the rendering with the option on gives exactly the rendering with the option off (html_sourcepos_only_adds), by per-node lemmas for all 41 kinds and a mutual induction in which the writer states of the two runs are shown equal after every step (last_was_lf is determined by the last byte written, which erasing an attribute never changes). For the token-level model of xml.rs (Comrak/Xml.lean) Lean proves the same for every tree (xml_sourcepos_only_adds; per start tag no other attribute is dropped, reordered or renamed; the formatter's only state, indent, does not depend on the option), its byte form through spellXml (xml_sourcepos_only_adds_bytes) and what exactly is inserted (xml_sourcepos_bytes_inserted). For the CommonMark model the option record has no sourcepos field (cm_ignores_sourcepos) and the output is the same for every assignment of positions to the nodes (cm_ignores_positions). The HTML model is tied to format_html by byte-equality for both settings on every run; the XML, CommonMark and parser halves of the statement are additionally decided on every run by the on/off oracle on the real format_xml, format_commonmark and parse_document over generated documents and directly built trees x random option vectors.",
        'note': "Trusted: Lean kernel + standard axioms; harness/driver; the tree-level lift needs equality of the two runs' writer states, exercised not "
         'proved.',
 'technique': 'Lean 4 per-node theorems (case analysis over 41 kinds) + differential correspondence + metamorphic on/off oracle on real output',
 'design_ref': 'DESIGN.md section 7, C18'}
