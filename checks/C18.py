"""Check configuration for C18 (loaded by checks_cfg.py)."""
from checks_common import HTML_TB  # noqa: F401

ID = "C18"

PROP = {'lean_props': ['Comrak.Props.C18'],
 'lean_audit': ['Comrak.Audit.C18'],
 'required_theorems': ['enter_sourcepos_only_adds', 'exit_sourcepos_only_adds', 'exit_independent_of_sourcepos'],
 'strength': 'per-node theorems for all kinds/options/states (HTML); tree-level lift, XML and CommonMark by correspondence + on/off oracle',
 'trusted_base': ["recursive renderT/renderF stand for comrak's explicit work-stack traversal (exercised by the correspondence on deep and wide "
                  'trees, not proved)',
                  'anchor normalisation (Unicode lower-casing / category filter) is a parameter of the model; the harness supplies the real '
                  "Anchorizer's value per heading text"],
 'assumptions': ['the on/off oracle compares strip(on) with strip(off), so a literal data-sourcepos attribute inside passed-through raw HTML is not '
                 'blamed on the option',
                 'XML and CommonMark formatters are not yet in the Lean model for this property: decided there by the oracle on real output only']}

TEXT = {'text': 'Proof (partial). For the complete token-level model of html.rs, Lean proves for every node kind, option vector, context and writer state '
         'that erasing data-sourcepos from what a node writes with the option on gives exactly what it writes with the option off, on entering and '
         'on leaving the node (enter/exit_sourcepos_only_adds). The lift to whole trees, and the XML/CommonMark/parser halves, are decided on every '
         'run by byte-equal correspondence of the model with format_html for both settings and by the on/off oracle on the real format_html, '
         'format_xml, format_commonmark and parse_document over generated documents and directly built trees x random option vectors.',
 'note': "Trusted: Lean kernel + standard axioms; harness/driver; the tree-level lift needs equality of the two runs' writer states, exercised not "
         'proved.',
 'technique': 'Lean 4 per-node theorems (case analysis over 41 kinds) + differential correspondence + metamorphic on/off oracle on real output',
 'design_ref': 'DESIGN.md section 7, C18'}
