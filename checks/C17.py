"""Check configuration for C17 (loaded by checks_cfg.py)."""

ID = "C17"

CM_TB = ["recursive renderT/renderF of Comrak/Cm.lean stand for cm.rs's explicit work-stack traversal (exercised by the correspondence, not proved)",
         "the Lean model keeps the output buffer reversed and models the u32 bit set of shortest_unused_sequence as a list of run lengths; "
         "both representations are tied to the real code by the byte-equality correspondence and the hook comparison",
         "the parser is not modelled: the two round-trip relations are evaluated on the real parse_document/format_commonmark/format_html (search stage, always full volume)"]

PROP = {'lean_props': ['Comrak.Props.C17'],
 'lean_audit': ['Comrak.Audit.C17'],
 'required_theorems': ['cr_blankline_idempotent',
                       'crFlush_clears',
                       'renderCm_final_newline',
                       'canonical_spellings',
                       'cm_end_list_after_empty_item_counterexample',
                       'cm_fixed_point_canon_partial',
                       'cm_idempotent_canon_partial'],
 'strength': 'partial: proved are the parser-independent halves of idempotence (pending-newline bookkeeping idempotent and monotone, flush leaves nothing pending, final newline, one spelling per construct) on the writer model that is byte-equal to the real writer; the fixed-point relation itself is false on the pinned tree (Lean witness + listed finding classes) and is decided per input by the search oracle; on a stated sub-class of the C03 canonical documents (Doc.cmOk: text with the always-escaped marks, emphasis, strong, strikethrough, code spans, inline links and images, angle autolinks, breaks, ATX headings, thematic breaks, one-block quotes, nested bullet/ordered/task lists without blank lines inside items) the fixed point IS a theorem: renderCm defaultOpts d.toTree = d.write, hence idempotence modulo the K correspondence (cm_fixed_point_canon_partial, cm_idempotent_canon_partial)',
 'trusted_base': CM_TB,
 'assumptions': ['claimed class of the two round-trip oracles (S): documents built from the standard constructs (paragraphs, ATX/setext headings, thematic breaks, '
                 'fenced/indented code, block quotes, bullet/ordered lists tight/loose, task items, HTML blocks, tables, one referenced footnote; emphasis/strong, '
                 'code spans, links, images, angle autolinks, hard breaks, entities, backslash escapes, strikethrough; text over every Markdown-significant '
                 'character) and the canonical documents of the C03 model, x GFM extensions + footnotes in every combination x list_style x prefer_fenced, with '
                 'width = 0, ol_width = 0 or 2..6, smart off',
                 'NOT in the S class (stated restrictions): width > 0 (re-flow moves block markers to line starts and breaks table rows/code spans - covered by '
                 'K only), ol_width > 6, smart, text that looks like an extended autolink (www., scheme://, @), `^` `$` `;` '
                 'as free text tokens, block quotes inside list items, task items not starting with a paragraph, emphasis adjacent to other inline syntax '
                 'without a space (except the generated direct nestings), non-GFM extensions, hardbreaks, relaxed_*, ignore_*, escaped_char_spans, '
                 'default_info_string, experimental_minimize_commonmark, palette/byte-soup inputs',
                 'admitted differences: the end-of-list comment, directly nested strong (gfm_quirks comparison), soft-break placement inside headings',
                 'a failure is counted under a listed mechanism only if removing that mechanism\'s trigger from the parsed tree makes the clause pass '
                 '(counterfactual attribution); parser panics are skipped (C01\'s subject)'],
 'timeout_quick': 900,
 'timeout_thorough': 3000}

TEXT = {'text_added': 'On the sub-class of canonical documents of cm_fixed_point_canon_partial the driver generates documents (`canoncm`) and the harness checks on the real code that the parser returns the model tree for the written text and that format_commonmark returns the written text byte for byte.',
 'text': 'Proof + search. Same model of cm.rs as C07 (renderCm, byte-equal to the real format_commonmark on parsed documents and direct trees). Lean proves '
         'the parts of the fixed-point property that do not involve the parser: cr/blankline are idempotent, blankline absorbs cr and need_cr never decreases '
         'between flushes; the flush at the head of output leaves nothing pending and is idempotent; a tight list item gets at most one newline; the document '
         'ends with exactly one final line feed; fences are at least three characters of one kind and ordered markers are padded to ol_width. That the first '
         'pass is not always a fixed point is a Lean counterexample (end-of-list comment under an empty last item). On the sub-class Doc.cmOk of the canonical '
         'documents (spelling fixed to the writer\'s choices; constructs excluded are listed in the theorem\'s docstring) Lean proves that the writer model with '
         'default options reproduces the document\'s own text, so that idempotence on that class follows from the K correspondence alone. The relation '
         'cm(parse(cm(parse x))) == cm(parse x) is evaluated byte for byte on the real code over the same class as C07; failures are shrunk and classified by '
         'the first structural difference between parse(x) and parse(cm(parse x)) (or, when the trees agree, by the first differing output line); classes found '
         'on the pinned tree are listed findings, any other class is a violation.',
 'note': 'Trusted: Lean kernel + standard axioms; harness/driver; the recursive traversal standing for the work stack. The parser is exercised, not modelled.',
 'technique': 'Lean 4 theorems about a complete model of cm.rs + byte-equality correspondence + full-volume metamorphic search with shrinking and '
              'delta classification on the real parser/writer',
 'design_ref': 'DESIGN.md section 7, C07/C17'}
