"""Check configuration for C11 (loaded by checks_cfg.py)."""

ID = "C11"

PROP = {'lean_props': ['Comrak.Props.C11', 'Comrak.Props.C11C12Canon'],
 'lean_audit': ['Comrak.Audit.C11'],
 'required_theorems': ['lineTable_covers',
                       'spNested_trans',
                       'spOrdered_of_nested',
                       'spInRange_sound',
                       'spx_consume_conserves',
                       'spx_consume_in_span',
                       'spx_consume_in_range',
                       'blockEnd_after_start',
                       'blockEnd_counterexample',
                       'thematicEnd_exact', 'thematicEnd_old_exact_iff',
                       'canon_positions_in_range_nested_ordered'],
 'strength': 'partial: theorems cover the oracles (line table partitions the source, nesting is a pre-order, per-level order check suffices) '
             'and the modelled mechanisms (Spx::consume exactly; the three-way end rule of finalize_borrowed under its explicit hypothesis, '
             'refuted without it; thematic-break end column exact iff no container prefix was consumed). On the canonical class of C03 (any nesting of quotes, lists, tables, task items, HTML blocks, footnotes, multi-line inlines) '
             'the positions the model claims satisfy range, nesting and order for every document (canon_positions_in_range_nested_ordered), and C03\'s '
             'correspondence compares them with the real parser\'s on every run. Outside that class the parser is reached by the '
             'search stage only, which always runs at full volume; the defects it finds on the pinned tree are listed findings.',
 'trusted_base': ['the oracle definitions of Comrak/Sourcepos.lean (spRangeFail, spNested, spOrdered, kinds excluded as documented-unreliable, '
                  'footnote definitions exempt from sibling order because the parser relocates them) are the reading of the property; end column 0 '
                  'is accepted exactly on an empty line, column len+1 exactly on a line that has a terminator',
                  'failure classes (sig) are computed by the harness from the source text and tree shape around the failing node '
                  '(harness/src/spk.rs classify); a failure that matches no listed construct is shrunk and re-classified on the minimal document'],
 'assumptions': ['documents are valid UTF-8 (Rust &str)', 'parser panics are C01\'s subject and are counted as skipped here']}

TEXT = {'text_added': "The generator also writes tabs where it wrote spaces in line prefixes (after `>`, as indentation), consistently over a document; a failure on a paragraph continuation line that carries its single container's prefix, or in a table whose lines share one prefix inside a single container, is not part of the listed tab class.",
 'text': 'Proof + search. The range, nesting and sibling-order oracles are Lean definitions (Comrak/Sourcepos.lean) executed by the driver on '
         'every node of the tree the real parser returns; Lean proves that the line table partitions the source (LF/CRLF/CR), that nesting is '
         'transitive and that ordered parents make their children ordered (so checking parent/child and adjacent siblings is enough), and models '
         'Spx::consume (bytes conserved, returned column inside the span it stops in, no assertion failure on exact queues), the end rule of '
         'finalize_borrowed (end >= start under the explicit hypothesis that a block closed by a later line was opened on an earlier one; a '
         'counterexample theorem without it, which is the HTML-block defect) and the thematic-break end column (exact iff offset = 0). The search '
         'stage runs at full volume on every check over generated documents (ASCII + multi-byte + tabs, multi-line inlines in nested containers, '
         'CR/CRLF, lazy lines, reference definitions) x option vectors; about twenty defect classes of the pinned tree are listed in '
         'known_findings.json with replays; anything outside them is a VIOLATION.',
 'note': 'Trusted: Lean kernel + standard axioms; harness/driver; the classification of failures into listed syntactic classes. The theorems do '
         'not cover the whole parser (strength: partial).',
 'technique': 'Lean 4 theorems about executable oracles and mechanism models + full-volume oracle search on the real parser + known-finding '
              'classification by syntactic class',
 'design_ref': 'DESIGN.md section 7, C11/C12'}
