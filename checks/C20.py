"""Check configuration for C20 (loaded by checks_cfg.py)."""

ID = "C20"

PROP = {'lean_props': ['Comrak.Props.C20'],
 'lean_audit': ['Comrak.Audit.C20'],
 'required_theorems': ['parseLines_eq_lines',
                       'split_sound',
                       'split_complete',
                       'split_recognised_iff',
                       'split_none_first_line',
                       'split_none_no_closing_line',
                       'split_none_not_at_start',
                       'split_none_open_not_alone',
                       'split_lines_invariant',
                       'front_matter_any_line_endings',
                       'lines_shift',
                       'front_matter_line_count',
                       'unrecognised_is_ordinary',
                       'html_front_matter_absent',
                       'html_front_matter_absent_doc',
                       'xml_front_matter_is_empty_element',
                       'xml_front_matter_one_element_doc',
                       'cm_front_matter_verbatim'],
 'strength': 'full for the splitter: a complete characterisation in terms of the LF/CRLF/CR lines of the text, for every text and every '
             'non-empty delimiter (recognised exactly when the first line is the delimiter and a later line is; what is taken is cut at a '
             'line boundary and consists of the delimiter, lines that are not the delimiter, the delimiter, plus one blank line exactly when '
             'one follows; empty bodies, mixed line endings, CR-only endings and a closing delimiter at the end of the input included), '
             'independence of the line-ending convention, and the line shift (= number of lines of the front matter); the four former '
             'incompleteness findings are repaired in /repo (d92265f) and kept as _repaired theorems; the formatters\' treatment of the '
             'FrontMatter node is proved on the three formatter models (HTML: no token, and Document[FrontMatter, rest] = Document[rest] token '
             'for token; XML: one self-closing <frontmatter /> element and nothing else changes; CommonMark: the output starts with the payload '
             'byte for byte, for every width); that the rest *parses* as on its own is a whole-parser fact covered by the search on the real code',
 'trusted_base': ['byte-level reading of &str offsets (exact on valid UTF-8: every slice offset is the start or end of the text, next to an '
                  'ASCII line-end byte, or follows a complete match of the delimiter)',
                  'the independent line-based reading of the statement used by the search oracle (ref_lines / ref_split in harness/src/c20.rs; '
                  'ref_lines is compared with the Lean `lines` in the correspondence stage)'],
 'assumptions': ['input and delimiter are valid UTF-8; the delimiter is non-empty and contains no line break (the property\'s quantifier)',
                 'a rest that itself starts with U+FEFF is excluded from "renders as on its own": a byte-order mark exists only at the very start '
                 'of a text (Lean: bom_rest_counterexample)',
                 'render.experimental_minimize_commonmark is off in the CommonMark comparison (its re-parse of its own output consults the '
                 'front matter option on a different text)',
                 'CommonMark of the rest is compared modulo blank lines between the verbatim block and the next block']}

TEXT = {'text': 'Proof. strings::split_off_front_matter is modelled exactly as it is since /repo commit d92265f (BOM strip, prefix test, '
         'line_ending_len, the line-by-line loop: content up to the first LF/CR, comparison with the delimiter, optional blank line, end of '
         'input) together with strings::count_line_endings (ef24343) and the front-matter step of Parser::feed (node literal, line_number '
         'advance). With `lines` the LF/CRLF/CR line splitting of C08 (parseLines_eq_lines: the process_line calls are `lines` up to the NUL '
         'replacement), Lean proves for every text and every non-empty delimiter: split_recognised_iff (something is taken iff the first line '
         'of the BOM-stripped text is the delimiter and a later line is the delimiter), split_sound (front matter ++ rest is the BOM-stripped '
         'text, cut at a line boundary; the front matter starts with the delimiter and a line ending; its lines are the delimiter, lines none '
         'of which is the delimiter, the delimiter, and then one blank line exactly when the text continues with one), split_complete (on a '
         'text with lines d :: body ++ d :: tail, d not in body, the lines taken are d :: body ++ [d] plus a leading blank line of tail, and '
         'the rest has the remaining lines; no hypothesis on line endings, body may be empty, the closing line may end the input), the '
         'split_none corollaries (first line not the delimiter: not at the very start / opening delimiter not alone; no later line is the '
         'delimiter: unterminated / closing delimiter not alone), split_lines_invariant and front_matter_any_line_endings (rewriting every '
         'CRLF/CR/LF as LF changes neither recognition nor the lines of front matter and rest: the C08 clause for this raw-text reader), '
         'lines_shift with front_matter_line_count (the block parser gets exactly the lines of the rest, numbered after the lines of the '
         'front matter) and '
         'unrecognised_is_ordinary. Renderer half, on the formatter models (Html.lean, Xml.lean, Cm.lean; tied to the real formatters by C10/C09/C17 '
         'byte-equality correspondence): html_front_matter_absent (the node writes no token and leaves the writer state alone, every context and '
         'option vector), html_front_matter_absent_doc (the tokens of Document[FrontMatter fm, rest...] are those of Document[rest...], no shape '
         'hypothesis), xml_front_matter_is_empty_element / xml_front_matter_one_element_doc (XML is not absent: exactly one <frontmatter /> '
         'line is inserted after the document start tag, payload never written), cm_front_matter_verbatim (for every option vector including '
         'every width and every following siblings the CommonMark output starts with the payload byte for byte: an invariant of the line-assembly '
         'state machine, nothing written later reaches back before the recorded break position) and cm_front_matter_alone. Tie to the code: the real split_off_front_matter (hook) equals the model on every string of <= 8/6/6 symbols '
         'over {delimiter bytes, other, LF, CR, BOM} for three delimiters and on generated documents; the parser\'s FrontMatter literal and tapped '
         'process_line calls (with their line numbers) equal the model\'s parseDoc; the oracle\'s ref_lines equals the model\'s lines. Search on '
         'the real code against an independent line-based reading of the statement (lines end with LF, CRLF or CR): '
         'recognised exactly, CommonMark = front matter verbatim + rest, HTML/XML = those of the rest alone (sourcepos lines shifted by the line '
         'count of the front matter), look-alikes '
         'render as with the option off. No listed exception is left: the three incompleteness defects (empty body; body line starting with the '
         'delimiter when the closing delimiter ends the input; mixed line endings preferring a later CRLF delimiter) and the unrecognised CR-only '
         'spelling were repaired in /repo commit d92265f, the two defects that commit made reachable (line count of front matter lines ended by '
         'a lone CR; CommonMark writer not at a line start after a final CR) in ef24343 and 65297f7; all six are status=fixed in '
         'known_findings.json with their replays, and Lean _repaired theorems show the old function next to the new one.',
 'note': 'Trusted: Lean kernel + standard axioms; harness/driver/hooks; the renderers\' treatment of the FrontMatter node is proved on the formatter models and searched on the real code.',
 'technique': 'Lean 4 theorems about an exact model of the splitter (every text is a line-end-free content followed by nothing or by a line '
              'ending and more text; the loop and the line splitter unfold by one line on that shape; induction on the fuel) + exhaustive/random '
              'differential correspondence through cfg(comrak_verif) hooks + with/without-front-matter search on the real parser and formatters',
 'design_ref': 'DESIGN.md section 7, C20'}
