"""Check configuration for C20 (loaded by checks_cfg.py)."""

ID = "C20"

PROP = {'lean_props': ['Comrak.Props.C20'],
 'lean_audit': ['Comrak.Audit.C20'],
 'required_theorems': ['split_sound',
                       'split_none_not_at_start',
                       'split_none_open_not_alone',
                       'split_none_unterminated',
                       'split_none_close_not_alone',
                       'split_complete_partial',
                       'split_complete_eof_partial',
                       'lines_shift',
                       'unrecognised_is_ordinary',
                       'html_front_matter_absent',
                       'html_front_matter_absent_doc',
                       'xml_front_matter_is_empty_element',
                       'xml_front_matter_one_element_doc',
                       'cm_front_matter_verbatim'],
 'strength': 'full for the splitter on the soundness side (what is taken is always a delimiter-enclosed leading block; look-alikes are never taken) '
             'and for the line shift; completeness is proved on uniformly terminated texts whose body lines do not start with the delimiter and '
             'refuted outside (three counterexample theorems = three known findings); the formatters\' treatment of the FrontMatter node is '
             'proved on the three formatter models (HTML: no token, and Document[FrontMatter, rest] = Document[rest] token for token; XML: one '
             'self-closing <frontmatter /> element and nothing else changes; CommonMark: the output starts with the payload byte for byte, '
             'for every width); that the rest *parses* as on its own is a whole-parser fact covered by the search on the real code',
 'trusted_base': ['byte-level reading of &str offsets (exact on valid UTF-8: every slice offset follows a complete match of a valid UTF-8 pattern)',
                  'the independent line-based reading of the statement used by the search oracle (ref_split in harness/src/c20.rs)'],
 'assumptions': ['input and delimiter are valid UTF-8; the delimiter is non-empty and contains no line break (the property\'s quantifier)',
                 'a rest that itself starts with U+FEFF is excluded from "renders as on its own": a byte-order mark exists only at the very start '
                 'of a text (Lean: bom_rest_counterexample)',
                 'render.experimental_minimize_commonmark is off in the CommonMark comparison (its re-parse of its own output consults the '
                 'front matter option on a different text)',
                 'CommonMark of the rest is compared modulo blank lines between the verbatim block and the next block']}

TEXT = {'text': 'Proof. strings::split_off_front_matter is modelled exactly (BOM strip, prefix test, the three find alternatives in the code\'s order, '
         'LF/CRLF/EOF branches, optional blank line) together with the front-matter step of Parser::feed (node literal, line_number advance). Lean '
         'proves for every text and delimiter: split_sound (front matter ++ rest is the BOM-stripped text; the front matter starts with the '
         'delimiter and a line end; its closing delimiter is preceded by a line break and followed by a line end, at most one blank line, or the '
         'end of input), one split_none lemma per look-alike clause (not at the very start, opening or closing delimiter not alone on its line, '
         'unterminated), split_complete_partial / split_complete_eof_partial (a delimiter line, a body of at least one line none of whose lines '
         'starts with the delimiter, the delimiter line again, under one line-end convention, is split exactly there, one following blank line '
         'included), lines_shift (the block parser gets exactly the lines of the rest, numbered after the front matter) and '
         'unrecognised_is_ordinary. Renderer half, on the formatter models (Html.lean, Xml.lean, Cm.lean; tied to the real formatters by C10/C09/C17 '
         'byte-equality correspondence): html_front_matter_absent (the node writes no token and leaves the writer state alone, every context and '
         'option vector), html_front_matter_absent_doc (the tokens of Document[FrontMatter fm, rest...] are those of Document[rest...], no shape '
         'hypothesis), xml_front_matter_is_empty_element / xml_front_matter_one_element_doc (XML is not absent: exactly one <frontmatter /> '
         'line is inserted after the document start tag, payload never written), cm_front_matter_verbatim (for every option vector including '
         'every width and every following siblings the CommonMark output starts with the payload byte for byte: an invariant of the line-assembly '
         'state machine, nothing written later reaches back before the recorded break position) and cm_front_matter_alone. Tie to the code: the real split_off_front_matter (hook) equals the model on every string of <= 8/6/6 symbols '
         'over {delimiter bytes, other, LF, CR, BOM} for three delimiters and on generated documents; the parser\'s FrontMatter literal and tapped '
         'process_line calls equal the model\'s parseDoc. Search on the real code against an independent line-based reading of the statement: '
         'recognised exactly, CommonMark = front matter verbatim + rest, HTML/XML = those of the rest alone (sourcepos lines shifted), look-alikes '
         'render as with the option off. Three genuine incompleteness defects (empty body; body line starting with the delimiter when the closing '
         'delimiter ends the input; mixed line endings preferring a later CRLF delimiter) are Lean counterexamples and known findings.',
 'note': 'Trusted: Lean kernel + standard axioms; harness/driver/hooks; the renderers\' treatment of the FrontMatter node is proved on the formatter models and searched on the real code.',
 'technique': 'Lean 4 theorems about an exact model of the splitter (structure lemma by case analysis over the code\'s branches) + exhaustive/random '
              'differential correspondence through cfg(comrak_verif) hooks + with/without-front-matter search on the real parser and formatters',
 'design_ref': 'DESIGN.md section 7, C20'}
