#!/bin/bash
# Development helper (not a registered command): run one check against a seeded change without
# touching /repo. usage: tools_seedrun.sh <patch.diff> <Cid> [tier]
# Creates a scratch worktree of /repo HEAD + the patch and a copy of the harness pointing at it.
set -u
PATCH=$(readlink -f "$1"); PID=$2; TIER=${3:-quick}
S=/tmp/seedrun-$$-$PID
mkdir -p $S
git -C /repo worktree add -q --detach $S/repo HEAD || exit 2
if ! git -C $S/repo apply "$PATCH"; then echo "PATCH-DOES-NOT-APPLY"; git -C /repo worktree remove --force $S/repo; rm -rf $S; exit 2; fi
rsync -a --exclude target /verif/harness/ $S/harness/
sed -i "s|path = \"/repo\"|path = \"$S/repo\"|" $S/harness/Cargo.toml
mkdir -p $S/evidence $S/replays
cd /verif
VERIF_HARNESS=$S/harness VERIF_REPO=$S/repo VERIF_EVIDENCE_DIR=$S/evidence VERIF_REPLAYS_DIR=$S/replays VERIF_CLI_TARGET=$S/cli-target \
  timeout 1500 ./check $PID --tier $TIER > $S/out.txt 2> $S/err.txt
RC=$?
echo "rc=$RC"
grep -E "^VIOLATION|^KNOWN-FINDING" $S/out.txt | cut -c1-300
grep -E "^\[broken\]" $S/err.txt | cut -c1-1200 | head -3
for f in $S/replays/*.json; do [ -f "$f" ] && python3 -c "
import json,sys
r=json.load(open('$f'))
print('REPLAY', r.get('stage'), r.get('kind'), r.get('sig'), str(r.get('input',''))[:200]); print('   ', str(r.get('detail',''))[:300])
"; done
git -C /repo worktree remove --force $S/repo
rm -rf $S
exit $RC
