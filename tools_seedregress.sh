#!/bin/bash
# Development helper: re-run every accepted seed against the check of its property (3 at a time)
# and update the meta.json files. usage: tools_seedregress.sh [name-prefix]
cd /verif
ls seeded | grep "^${1:-}" | while read n; do echo "$n ${n%%-*}"; done > work/seedregress.list
xargs -P 3 -L 1 ./tools_seedrecheck.sh < work/seedregress.list > work/seedregress.log 2>&1
echo finished >> work/seedregress.log
