#!/bin/bash
# Development helper: re-run a property's check against an already accepted seed and update its meta.json.
# usage: tools_seedrecheck.sh <name> <Cid>
NAME=$1; PID=$2
cd /verif
./tools_seedrun.sh seeded/$NAME/patch.diff $PID > work/seedrun-$NAME.log 2>&1
python3 - "$NAME" "$PID" <<'PY'
import json,sys,re
name,pid=sys.argv[1],sys.argv[2]
log=open('/verif/work/seedrun-%s.log'%name).read()
rc=re.search(r'^rc=(\d+)',log,re.M)
viol=[l for l in log.splitlines() if l.startswith('VIOLATION')]
rep=[l for l in log.splitlines() if l.startswith('REPLAY')]
p='/verif/seeded/%s/meta.json'%name
m=json.load(open(p))
old=m.get('check_result')
m['check_result']={'check':pid,'exit':int(rc.group(1)) if rc else None,'violations':len(viol),
  'no_failing_input_found':any('no-failing-input-found' in v for v in viol),'first_replay':(rep[0][:300] if rep else None)}
if old and old.get('exit')==0 and m['check_result']['exit']==1:
    m['check_result']['missed_by_earlier_version_of_the_check']=True
json.dump(m,open(p,'w'),indent=1)
print(name, m['check_result'])
PY
