#!/bin/sh
# Builds the framework from files on disk only (offline).
set -e
cd "$(dirname "$0")"
export CARGO_NET_OFFLINE=true
mkdir -p work evidence replays
(cd lean && lake build Comrak comrak_model)
(cd harness && cargo build --offline --release)
echo "setup ok"
