#!/bin/sh
# Builds the framework from files on disk only (offline). Every check rebuilds what it needs
# from /repo's working tree anyway; this warms the caches so that the quick tier is quick.
set -e
cd "$(dirname "$0")"
export CARGO_NET_OFFLINE=true
mkdir -p work evidence replays
(cd lean && lake build)
(cd harness && cargo build --offline --release && cargo build --offline)
# the CLI binary for C16 (rebuilt from /repo on every C16 run; warmed here)
(cd /repo && CARGO_TARGET_DIR=/verif/work/cli-target CARGO_PROFILE_DEV_DEBUG_ASSERTIONS=false CARGO_PROFILE_DEV_OVERFLOW_CHECKS=false cargo build --offline --bin comrak) || true
echo "setup ok"
