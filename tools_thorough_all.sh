#!/bin/bash
# Development helper: run the thorough tier of the given checks (default: all) into a scratch
# evidence directory, so that the committed evidence stays the quick seed-1 run.
# usage: tools_thorough_all.sh [ids...]
cd /verif
IDS=${@:-C01 C02 C03 C04 C05 C06 C07 C08 C09 C10 C11 C12 C13 C14 C15 C16 C17 C18 C19 C20}
export VERIF_EVIDENCE_DIR=/verif/work/thorough-evidence VERIF_REPLAYS_DIR=/verif/work/thorough-replays
mkdir -p $VERIF_EVIDENCE_DIR $VERIF_REPLAYS_DIR
for p in $IDS; do
  t0=$(date +%s)
  ./check $p --tier thorough > work/thorough-$p.out 2> work/thorough-$p.err; rc=$?
  echo "$p rc=$rc $(( $(date +%s) - t0 ))s $(grep -c '^KNOWN-FINDING' work/thorough-$p.out) known"
  grep ^VIOLATION work/thorough-$p.out | head -3
  grep '^\[broken\]' work/thorough-$p.err | cut -c1-300 | head -2
done
echo finished
