#!/usr/bin/env python3
"""Validate MANIFEST.json and evidence/*.json against the schemas (run with python3-vt)."""
import json, sys, glob
import jsonschema
ok = True
m = json.load(open('/verif/MANIFEST.json'))
try:
    jsonschema.validate(m, json.load(open('/root/.vp/MANIFEST.schema.json')))
    print('MANIFEST ok,', len(m['checks']), 'checks')
except Exception as e:
    ok = False; print('MANIFEST INVALID', e)
sch = json.load(open('/root/.vp/EVIDENCE.schema.json'))
for f in sorted(glob.glob('/verif/evidence/*.json')):
    try:
        ev = json.load(open(f)); jsonschema.validate(ev, sch)
        c = ev['coverage']
        print(f, 'ok', 'obl', c.get('obligations'), 'dis', c.get('discharged'), 'evals', c.get('evaluations'), 'wall', ev['wall_s'], 'viol', ev.get('violations'))
    except Exception as e:
        ok = False; print(f, 'INVALID', str(e)[:300])
sys.exit(0 if ok else 1)
